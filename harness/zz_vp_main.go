package main

import (
	"bytes"
	"context"
	"errors"
	"os/exec"

	"github.com/github/git-sizer/git"
	"github.com/github/git-sizer/meter"
	"github.com/github/git-sizer/sizes"
)

// H-main (C14): the real mainImplementation with the real pflag; the
// repository, gitconfig, scan and renderers are replaced at their boundaries
// and capture the effective settings.

type vpRootRec struct {
	name string
	oid  git.OID
}

type vpCaptured struct {
	rootRecs    []vpRootRec
	threshold   sizes.Threshold
	nameStyle   sizes.NameStyle
	scanStyle   sizes.NameStyle
	output      string // "table", "json1", "json2"
	progress    bool
	outputs     int
	walkProbe   bool
	categorized bool
	roots       int
}

type vpConfig struct {
	entries     []git.ConfigEntry // what `git config --list` reports (refgroup definitions)
	threshold   int               // 0 absent, 1 valid "0.1" (not exactly representable: read with full double precision), 2 invalid
	names       int               // 0 absent, 1 "hash", 2 invalid
	jsonVersion int               // 0 absent, 1 -> 2, 2 -> 3 (invalid)
	progress    int               // 0 absent, 1 true
	consulted   map[string]int
	refs        []sizes.RefRoot // what the enumeration of references returns (default: none)
}

func vpInstallMainStubs(cfg *vpConfig, cap *vpCaptured, probe string) {
	vp_Stub("github.com/github/git-sizer/git.NewRepositoryFromPath", func(path string) (*git.Repository, error) {
		return &git.Repository{}, nil
	})
	vp_Stub("(*github.com/github/git-sizer/git.Repository).GitCommand", func(r *git.Repository, args ...string) *exec.Cmd { return &exec.Cmd{} })
	vp_Stub("(*github.com/github/git-sizer/git.Repository).GetConfig", func(r *git.Repository, prefix string) (*git.Config, error) {
		c := git.Config{Prefix: prefix}
		for _, e := range cfg.entries {
			if ok, rest := git.VP_KeyMatch(e.Key, prefix); ok {
				c.Entries = append(c.Entries, git.ConfigEntry{Key: rest, Value: e.Value})
			}
		}
		return &c, nil
	})
	vp_Stub("(*github.com/github/git-sizer/git.Repository).ConfigStringDefault", func(r *git.Repository, key string, def string) (string, error) {
		cfg.consulted[key]++
		switch key {
		case "sizer.threshold":
			switch cfg.threshold {
			case 1:
				return "0.1", nil
			case 2:
				return "bogus", nil
			}
		case "sizer.names":
			switch cfg.names {
			case 1:
				return "hash", nil
			case 2:
				return "bogus", nil
			}
		}
		return def, nil
	})
	vp_Stub("(*github.com/github/git-sizer/git.Repository).ConfigIntDefault", func(r *git.Repository, key string, def int) (int, error) {
		cfg.consulted[key]++
		switch cfg.jsonVersion {
		case 1:
			return 2, nil
		case 2:
			return 3, nil
		}
		return def, nil
	})
	vp_Stub("(*github.com/github/git-sizer/git.Repository).ConfigBoolDefault", func(r *git.Repository, key string, def bool) (bool, error) {
		cfg.consulted[key]++
		if cfg.progress == 1 {
			return true, nil
		}
		return def, nil
	})
	vp_Stub("github.com/github/git-sizer/sizes.CollectReferences", func(ctx context.Context, repo *git.Repository, rg sizes.RefGrouper) ([]sizes.RefRoot, error) {
		w, _ := rg.Categorize(probe)
		cap.walkProbe, cap.categorized = w, true
		return cfg.refs, nil
	})
	vp_Stub("(*github.com/github/git-sizer/git.Repository).ResolveObject", func(r *git.Repository, name string) (git.OID, error) {
		if name == "bad" {
			return git.NullOID, errors.New("bad revision")
		}
		return vpResolve(name), nil
	})
	vp_Stub("github.com/github/git-sizer/sizes.ScanRepositoryUsingGraph", func(ctx context.Context, repo *git.Repository, roots []sizes.Root, ns sizes.NameStyle, pm meter.Progress) (sizes.HistorySize, error) {
		cap.scanStyle = ns
		cap.roots = len(roots)
		for _, r := range roots {
			cap.rootRecs = append(cap.rootRecs, vpRootRec{r.Name(), r.OID()})
		}
		_, isNone := pm.(meter.Progress)
		_ = isNone
		cap.progress = pm != meter.NoProgressMeter
		return sizes.HistorySize{}, nil
	})
	vp_Stub("(*github.com/github/git-sizer/sizes.HistorySize).TableString", func(s *sizes.HistorySize, rgs []sizes.RefGroup, t sizes.Threshold, ns sizes.NameStyle) string {
		cap.threshold, cap.nameStyle, cap.output = t, ns, "table"
		cap.outputs++
		return "TABLE\n"
	})
	vp_Stub("(*github.com/github/git-sizer/sizes.HistorySize).JSON", func(s *sizes.HistorySize, rgs []sizes.RefGroup, t sizes.Threshold, ns sizes.NameStyle) ([]byte, error) {
		cap.threshold, cap.nameStyle, cap.output = t, ns, "json2"
		cap.outputs++
		return []byte("{}"), nil
	})
}

func VPH_mainSmoke() {
	if vp_Native() {
		vp_Reach("end")
		return
	}
	cfg := &vpConfig{consulted: map[string]int{}}
	cap := &vpCaptured{}
	vpInstallMainStubs(cfg, cap, "refs/heads/x")
	var stdout, stderr bytes.Buffer
	err := mainImplementation(context.Background(), &stdout, &stderr, []string{"--verbose"})
	vp_Assert(err == nil, "runs")
	vp_Assert(cap.output == "table" && cap.threshold == 0, "--verbose = threshold 0")
	vp_Reach("end")
}

type vpOpt struct {
	arg    string
	family string
	thr    float64 // threshold family: resulting threshold
	ns     sizes.NameStyle
	json   int // 0: not a json option, 1: -j/--json, 2: --json-version=1, 3: --json-version=2, 4: --json-version=3
	prog   int // 1 on, 2 off
}

var vpThresholdMenu = []vpOpt{
	{arg: "--threshold=2.5", family: "t", thr: 2.5}, {arg: "--verbose", family: "t", thr: 0}, {arg: "-v", family: "t", thr: 0},
	{arg: "--no-verbose", family: "t", thr: 1}, {arg: "--critical", family: "t", thr: 30}, {arg: "--threshold=0", family: "t", thr: 0},
	{arg: "--verbose=false", family: "t", thr: 1}, {arg: "--critical=false", family: "t", thr: 1},
	{arg: "--threshold=50", family: "t", thr: 50}, // stricter than --critical: taken as given, like the gitconfig value
}
var vpNamesMenu = []vpOpt{
	{arg: "--names=none", family: "n", ns: sizes.NameStyleNone}, {arg: "--names=hash", family: "n", ns: sizes.NameStyleHash},
	{arg: "--names=full", family: "n", ns: sizes.NameStyleFull}, {arg: "--names=sha1", family: "n", ns: sizes.NameStyleHash},
}
var vpJSONMenu = []vpOpt{
	{arg: "-j", family: "j", json: 1}, {arg: "--json", family: "j", json: 1}, {arg: "--json-version=1", family: "j", json: 2},
	{arg: "--json-version=2", family: "j", json: 3}, {arg: "--json-version=3", family: "j", json: 4},
}
var vpProgressMenu = []vpOpt{{arg: "--progress", family: "p", prog: 1}, {arg: "--no-progress", family: "p", prog: 2}, {arg: "--progress=false", family: "p", prog: 2}}

// VPH_mainOptions: option sequences of one family (chosen by a fork) with every
// gitconfig state; the settings that reach the scan and the renderer must be
// "last command-line option of the family, else gitconfig, else default".
func VPH_mainOptions() {
	if vp_Native() {
		vp_Reach("end")
		return
	}
	fam := vp_Choice("family", 4)
	menu := [][]vpOpt{vpThresholdMenu, vpNamesMenu, vpJSONMenu, vpProgressMenu}[fam]
	maxLen := vp_Param("maxopts")
	if fam != 0 && maxLen > 2 {
		maxLen = 2
	}
	n := vp_Choice("nopts", maxLen+1)
	var opts []vpOpt
	var args []string
	for i := 0; i < n; i++ {
		o := menu[vp_Choice("opt", len(menu))]
		opts = append(opts, o)
		args = append(args, o.arg)
	}
	cfg := &vpConfig{consulted: map[string]int{}}
	switch fam {
	case 0:
		cfg.threshold = vp_Choice("cfg.threshold", 3)
	case 1:
		cfg.names = vp_Choice("cfg.names", 3)
	case 2:
		cfg.jsonVersion = vp_Choice("cfg.jsonVersion", 3)
	case 3:
		cfg.progress = vp_Choice("cfg.progress", 2)
	}
	cap := &vpCaptured{}
	vpInstallMainStubs(cfg, cap, "refs/heads/x")
	var stdout, stderr bytes.Buffer
	err := mainImplementation(context.Background(), &stdout, &stderr, args)

	// ---- specification
	wantThr, wantNS, wantProg := 1.0, sizes.NameStyleFull, false
	jsonOn, jsonVer, jsonVerGiven := false, 1, false
	famSeen := false
	for _, o := range opts {
		famSeen = true
		switch o.family {
		case "t":
			wantThr = o.thr
		case "n":
			wantNS = o.ns
		case "j":
			switch o.json {
			case 1:
				jsonOn = true
			default:
				jsonVer, jsonVerGiven = o.json-1, true
			}
		case "p":
			wantProg = o.prog == 1
		}
	}
	wantErr := false
	if fam == 0 && !famSeen {
		switch cfg.threshold {
		case 1:
			wantThr = 0.1
		case 2:
			wantErr = true
		}
	}
	if fam == 1 && !famSeen {
		switch cfg.names {
		case 1:
			wantNS = sizes.NameStyleHash
		case 2:
			wantErr = true
		}
	}
	if fam == 2 && jsonOn {
		if jsonVerGiven {
			wantErr = jsonVer != 1 && jsonVer != 2
		} else {
			switch cfg.jsonVersion {
			case 1:
				jsonVer = 2
			case 2:
				wantErr = true
			}
		}
	}
	if fam == 3 && !famSeen && cfg.progress == 1 {
		wantProg = true
	}
	vp_Assert((err != nil) == wantErr, "error exactly for an invalid value that is actually consulted")
	if err != nil || wantErr {
		vp_Assert(stdout.Len() == 0, "no report on error")
		vp_Reach("error")
		return
	}
	vp_Assert(cap.outputs+vpJSONCallsV1() == 1, "exactly one report")
	switch fam {
	case 0:
		vp_Assert(cap.output == "table" && float64(cap.threshold) == wantThr, "threshold: last option of the family wins, else gitconfig, else 1")
	case 1:
		vp_Assert(cap.nameStyle == wantNS && cap.scanStyle == wantNS, "names: last --names wins, else gitconfig, else full")
	case 2:
		if !jsonOn {
			vp_Assert(cap.output == "table", "table unless --json")
		} else if jsonVer == 2 {
			vp_Assert(cap.output == "json2", "JSON v2")
		} else {
			vp_Assert(cap.output == "" && vpJSONCallsV1() == 1, "JSON v1 = encoding/json of the measurements")
		}
		if jsonOn {
		}
	case 3:
		vp_Assert(cap.progress == wantProg, "progress: last option wins, else gitconfig, else off (stderr is not a terminal)")
	}
	vp_Reach("ok")
}

// vpJSONCallsV1 counts encoding/json.MarshalIndent calls made by main itself (JSON v1).
func vpJSONCallsV1() int { return vp_JSONCalls() }

// VPH_mainSpellings: documented equivalent spellings leave the program in
// the same state: the same references are selected and the same settings
// reach the renderer.
func VPH_mainSpellings() {
	if vp_Native() {
		vp_Reach("end")
		return
	}
	pairs := [][2][]string{
		{{"--include-regexp", "refs/heads/a.*"}, {"--include", "/refs/heads/a.*/"}},
		{{"--exclude-regexp", "refs/heads/a.*"}, {"--exclude", "/refs/heads/a.*/"}},
		{{"--refgroup", "branches"}, {"--include", "@branches"}},
		{{"--verbose"}, {"--threshold=0"}},
		{{"--critical"}, {"--threshold=30"}},
		{{"--no-verbose"}, {"--threshold=1"}},
		{{"-j"}, {"--json"}},
		{{"--branches"}, {"--include", "refs/heads"}},
		{{"--no-branches"}, {"--exclude", "refs/heads"}},
		{{"--tags"}, {"--include", "refs/tags"}},
		{{"--no-tags"}, {"--exclude", "refs/tags"}},
		{{"--remotes"}, {"--include", "refs/remotes"}},
		{{"--no-remotes"}, {"--exclude", "refs/remotes"}},
		{{"--notes"}, {"--include", "refs/notes"}},
		{{"--no-notes"}, {"--exclude", "refs/notes"}},
		{{"--stash"}, {"--include", "/refs/stash/"}},
		{{"--no-stash"}, {"--exclude", "/refs/stash/"}},
		// refgroups from gitconfig: a nested group whose own rule is wider than its parent's
		{{"--refgroup", "mine.wip"}, {"--include", "@mine.wip"}},
		{{"--refgroup", "mine"}, {"--include", "@mine"}},
		{{"--refgroup", "misc.sub"}, {"--include", "@misc.sub"}},
		{{"--exclude", "refs/heads/a", "--refgroup", "mine.wip"}, {"--exclude", "refs/heads/a", "--include", "@mine.wip"}},
	}
	pr := pairs[vp_Choice("pair", len(pairs))]
	probe := []string{"refs/heads/", "refs/tags/", "refs/st", "refs/remotes/", "refs/notes", "refs/"}[vp_Choice("probe", 6)] + vp_Str("r", 3)
	vp_AssumeASCII(probe)
	for i := 0; i < len(probe); i++ {
		vp_Assume(probe[i] != '\n')
	}
	var caps [2]*vpCaptured
	for i := 0; i < 2; i++ {
		cfg := &vpConfig{consulted: map[string]int{}}
		cfg.entries = []git.ConfigEntry{
			{Key: "refgroup.mine.include", Value: "refs/heads"},
			{Key: "refgroup.mine.wip.include", Value: "refs"},
			{Key: "refgroup.mine.wip.exclude", Value: "refs/tags/r"},
			{Key: "refgroup.misc.sub.include", Value: "refs/tags"},
		}
		caps[i] = &vpCaptured{}
		vpInstallMainStubs(cfg, caps[i], probe)
		var stdout, stderr bytes.Buffer
		err := mainImplementation(context.Background(), &stdout, &stderr, pr[i])
		vp_Assert(err == nil, "both spellings are accepted")
		if err != nil {
			return
		}
		vp_Assert(caps[i].categorized, "references were categorised")
	}
	a, b := caps[0], caps[1]
	vp_Assert(a.walkProbe == b.walkProbe, "equivalent spellings select the same references")
	vp_Assert(a.threshold == b.threshold && a.nameStyle == b.nameStyle && a.output == b.output && a.progress == b.progress, "equivalent spellings reach the renderer with identical settings")
	vp_Reach("end")
}

// VPH_mainFaults (C10): whatever fails before the report is written - the
// repository cannot be opened, gitconfig cannot be read, an option value or a
// ROOT is invalid, the reference listing or the scan fails - the run returns
// an error and writes nothing to stdout.
func VPH_mainFaults() {
	if vp_Native() {
		vp_Reach("end")
		return
	}
	cases := [][]string{
		{"--threshold=abc"}, {"--names=bogus"}, {"--json-version=x"}, {"--json", "--json-version=3"}, {"--bogus-option"},
		{"--include=@undefined"}, {"--include=@"}, {"--include=/(/"}, {"--exclude-regexp", "("}, {"--refgroup", "nosuch"},
		{"bad"}, {"--branches=maybe"}, {"--verbose=2"},
	}
	site := vp_Choice("site", len(cases)+5)
	cfg := &vpConfig{consulted: map[string]int{}}
	cap := &vpCaptured{}
	vpInstallMainStubs(cfg, cap, "refs/heads/x")
	var args []string
	boom := errors.New("injected")
	switch {
	case site < len(cases):
		args = cases[site]
	case site == len(cases):
		vp_Stub("github.com/github/git-sizer/git.NewRepositoryFromPath", func(path string) (*git.Repository, error) { return nil, boom })
	case site == len(cases)+1:
		vp_Stub("(*github.com/github/git-sizer/git.Repository).GetConfig", func(r *git.Repository, prefix string) (*git.Config, error) { return nil, boom })
	case site == len(cases)+2:
		vp_Stub("github.com/github/git-sizer/sizes.CollectReferences", func(ctx context.Context, repo *git.Repository, rg sizes.RefGrouper) ([]sizes.RefRoot, error) {
			return nil, boom
		})
	case site == len(cases)+3:
		vp_Stub("github.com/github/git-sizer/sizes.ScanRepositoryUsingGraph", func(ctx context.Context, repo *git.Repository, roots []sizes.Root, ns sizes.NameStyle, pm meter.Progress) (sizes.HistorySize, error) {
			return sizes.HistorySize{}, boom
		})
	default:
		vp_Stub("(*github.com/github/git-sizer/git.Repository).ConfigStringDefault", func(r *git.Repository, key string, def string) (string, error) { return def, boom })
	}
	var stdout, stderr bytes.Buffer
	var err error
	panicked := vp_Catch(func() { err = mainImplementation(context.Background(), &stdout, &stderr, args) })
	vp_Assert(!panicked, "no panic")
	vp_Assert(err != nil, "the run fails (non-zero exit status, message on stderr)")
	vp_Assert(stdout.Len() == 0 && cap.outputs == 0 && vp_JSONCalls() == 0, "no report is written")
	vp_Reach("end")
}

// VPH_mainSelection (C06 end to end): sequences of selection options through
// the real pflag and option values; the reference is traversed iff the last
// matching option includes it (none matching: the opposite of the first).
func VPH_mainSelection() {
	if vp_Native() {
		vp_Reach("end")
		return
	}
	type sel struct {
		args  []string
		inc   bool
		kind  int // 0 prefix, 1 regexp
		param string
	}
	menu := []sel{
		{[]string{"--include", "refs/heads"}, true, 0, "refs/heads"},
		{[]string{"--exclude=refs/heads/a"}, false, 0, "refs/heads/a"},
		{[]string{"--branches"}, true, 0, "refs/heads"},
		{[]string{"--no-tags"}, false, 0, "refs/tags"},
		{[]string{"--include", "/refs/.*/a.?/"}, true, 1, "refs/.*/a.?"},
		{[]string{"--exclude", "@tags"}, false, 0, "refs/tags/"},
		{[]string{"--exclude", "/refs/heads/a|refs/tags/b/"}, false, 1, "refs/heads/a|refs/tags/b"},
		{[]string{"--branches=false"}, false, 0, "refs/heads"}, // "=false" inverts the polarity of that occurrence only
		{[]string{"--no-tags=false"}, true, 0, "refs/tags"},
	}
	n := vp_Choice("nopts", vp_Param("maxopts")+1)
	var opts []sel
	var args []string
	for i := 0; i < n; i++ {
		o := menu[vp_Choice("opt", len(menu))]
		opts = append(opts, o)
		args = append(args, o.args...)
	}
	withRoot := vp_Choice("root", 2) == 1
	if withRoot {
		args = append(args, "HEAD")
	}
	probe := []string{"refs/heads/", "refs/tags/"}[vp_Choice("probe", 2)] + vp_Str("r", 2)
	vp_AssumeASCII(probe)
	for i := 0; i < len(probe); i++ {
		vp_Assume(probe[i] != '\n')
	}
	cfg := &vpConfig{consulted: map[string]int{}}
	cap := &vpCaptured{}
	vpInstallMainStubs(cfg, cap, probe)
	var stdout, stderr bytes.Buffer
	err := mainImplementation(context.Background(), &stdout, &stderr, args)
	vp_Assert(err == nil, "valid selections are accepted")
	if err != nil {
		return
	}
	matches := func(o sel) bool {
		if o.kind == 1 {
			return vp_RegexpFullMatch(o.param, probe)
		}
		p := o.param
		if len(probe) < len(p) || probe[:len(p)] != p {
			return false
		}
		return p[len(p)-1] == '/' || len(probe) == len(p) || probe[len(p)] == '/'
	}
	want := !withRoot // no option: everything, unless only ROOTs were given
	for i, o := range opts {
		if i == 0 {
			want = !o.inc
		}
		if matches(o) {
			want = o.inc
		}
	}
	vp_Assert(cap.walkProbe == want, "traversed iff the last matching option includes it; none given: all references, or none when ROOTs are given")
	if withRoot {
		vp_Assert(cap.roots == 1, "the ROOT argument is a root of the scan")
	} else {
		// (the scripted repository lists no reference, so every root would be one the program invented)
		vp_Assert(cap.roots == 0, "without ROOT arguments nothing but references is scanned - whatever the selection matches")
	}
	vp_Reach("end")
}

// vpResolve is the scripted `git rev-parse`: several spellings may name one object.
func vpResolve(name string) git.OID {
	var b [20]byte
	switch name {
	case "one", "refs/heads/one", "one^0":
		b[0] = 1
	case "two", "refs/heads/two":
		b[0] = 2
	case "three", "refs/tags/three":
		// git's disambiguation: refs/tags/<name> comes before refs/heads/<name>
		b[0] = 3
	case "refs/heads/three":
		b[0] = 9
	default:
		return git.NullOID
	}
	o, _ := git.OIDFromBytes(b[:])
	return o
}

// VPH_mainRoots (C08, C01): every ROOT argument becomes a root of the scan
// under its own spelling and with the object that spelling resolves to; an
// object named twice may be fed once or twice, but never under another name.
func VPH_mainRoots() {
	if vp_Native() {
		vp_Reach("end")
		return
	}
	menu := []string{"one", "refs/heads/one", "one^0", "two", "refs/heads/two", "three"}
	n := 1 + vp_Choice("nroots", vp_Param("maxroots"))
	var args []string
	for i := 0; i < n; i++ {
		args = append(args, menu[vp_Choice("root", len(menu))])
	}
	cfg := &vpConfig{consulted: map[string]int{}}
	cap := &vpCaptured{}
	// the repository may have a branch and a tag with the same short name, pointing at
	// different objects (git resolves the short name to the tag)
	ambiguous := vp_Choice("ambiguous-refs", 2) == 1
	if ambiguous {
		cfg.refs = []sizes.RefRoot{
			sizes.VP_MkRefRoot("refs/heads/three", vpResolve("refs/heads/three"), false),
			sizes.VP_MkRefRoot("refs/tags/three", vpResolve("refs/tags/three"), false),
		}
	}
	vpInstallMainStubs(cfg, cap, "refs/heads/x")
	var stdout, stderr bytes.Buffer
	err := mainImplementation(context.Background(), &stdout, &stderr, args)
	vp_Assert(err == nil, "valid ROOTs are accepted")
	if err != nil {
		return
	}
	for _, r := range cap.rootRecs {
		if ambiguous && (r.name == "refs/heads/three" || r.name == "refs/tags/three") {
			vp_Assert(r.oid == vpResolve(r.name), "a reference root carries its own object")
			continue
		}
		vp_Assert(r.oid == vpResolve(r.name), "a root carries the object that its own name resolves to (its description must resolve to the cited object)")
		given := false
		for _, a := range args {
			if a == r.name {
				given = true
			}
		}
		vp_Assert(given, "roots are named as on the command line")
	}
	for _, a := range args {
		found := false
		for _, r := range cap.rootRecs {
			if r.oid == vpResolve(a) {
				found = true
			}
		}
		vp_Assert(found, "every ROOT's object is a root of the scan")
	}
	vp_Reach("end")
}

// VPH_mainOutput (C10, C11): stdout carries exactly the report - the table the
// renderer produces for the scan result and the effective settings, or the
// JSON document followed by one LF - and nothing else; stderr gets no report.
func VPH_mainOutput() {
	if vp_Native() {
		vp_Reach("end")
		return
	}
	cfg := &vpConfig{consulted: map[string]int{}}
	cap := &vpCaptured{}
	vpInstallMainStubs(cfg, cap, "refs/heads/x")
	vp_Unstub("(*github.com/github/git-sizer/sizes.HistorySize).TableString")
	hs := sizes.HistorySize{MaxParentCount: 15, MaxTreeEntries: 1999, UniqueBlobCount: 7}
	vp_Stub("github.com/github/git-sizer/sizes.ScanRepositoryUsingGraph", func(ctx context.Context, repo *git.Repository, roots []sizes.Root, ns sizes.NameStyle, pm meter.Progress) (sizes.HistorySize, error) {
		return hs, nil
	})
	mode := vp_Choice("mode", 6)
	args := [][]string{{}, {"--verbose"}, {"--critical"}, {"--json", "--json-version=1"}, {"--json", "--json-version=2"}, {"--show-refs"}}[mode]
	if mode == 4 {
		vp_Unstub("(*github.com/github/git-sizer/sizes.HistorySize).JSON")
	}
	var stdout, stderr bytes.Buffer
	err := mainImplementation(context.Background(), &stdout, &stderr, args)
	vp_Assert(err == nil, "runs")
	if err != nil {
		return
	}
	if mode == 5 {
		vp_Assert(stderr.String() == "References (included references marked with '+'):\n+ refs/heads/x\n", "--show-refs lists every reference with its selection mark on stderr")
	} else {
		vp_Assert(stderr.Len() == 0, "nothing on stderr without --progress/--show-refs")
	}
	thr := []sizes.Threshold{1, 0, 30, 1, 1, 1}[mode]
	if mode == 4 {
		// JSON v2: one entry per metric, keyed by its symbol, built from the same scan result
		vp_Assert(vp_JSONCalls() == 1, "JSON v2: the item map is marshalled once")
		vals, ok := sizes.VP_ItemsSummary(vp_LastJSON())
		vp_Assert(ok && len(vals) == 22, "JSON v2 has one entry per metric, keyed by the metric's own symbol")
		vp_Assert(vals["maxCommitParentCount"] == 15 && vals["maxTreeEntries"] == 1999 && vals["uniqueBlobCount"] == 7 && vals["maxBlobSize"] == 0, "JSON v2 values are the scan result's measurements")
		vp_Assert(stdout.String() == "null\n", "stdout is exactly the JSON document followed by one LF")
		vp_Reach("end")
		return
	}
	if mode < 3 || mode == 5 {
		want := hs.TableString(nil, thr, sizes.NameStyleFull)
		got := stdout.String()
		// the refgroup rows depend on the grouper's groups, which have no tallies here: same text
		vp_Assert(got == want, "stdout is exactly the table for the scan result and the effective threshold (and unaffected by --show-refs)")
		if mode == 2 {
			vp_Assert(got == "No problems above the current threshold were found\n", "--critical on a harmless repository: the single 'no problems' line")
		}
	} else {
		vp_Assert(vp_JSONCalls() == 1, "JSON v1: the measurements are marshalled once")
		h2, ok := vp_LastJSON().(sizes.HistorySize)
		vp_Assert(ok && h2.MaxParentCount == 15 && h2.MaxTreeEntries == 1999 && h2.UniqueBlobCount == 7, "JSON v1 marshals the scan result itself")
		vp_Assert(stdout.String() == "null\n", "stdout is exactly the JSON document followed by one LF")
	}
	vp_Reach("end")
}

// vpFailWriter accepts limit bytes and then fails like a full disk or a
// closed pipe (short write + error), remembering that it did.
type vpFailWriter struct {
	limit  int
	data   []byte
	failed bool
}

func (w *vpFailWriter) Write(p []byte) (int, error) {
	room := w.limit - len(w.data)
	if len(p) > room {
		w.data = append(w.data, p[:room]...)
		w.failed = true
		return room, errors.New("no space left on device")
	}
	w.data = append(w.data, p...)
	return len(p), nil
}

// VPH_mainStdoutFaults (C10, first sentence): status 0 only after a complete
// report. stdout accepts `limit` bytes and then fails; whichever output
// format is chosen, a report that could not be written completely makes the
// run fail, and an undisturbed run writes the whole report.
func VPH_mainStdoutFaults() {
	if vp_Native() {
		vp_Reach("end")
		return
	}
	cfg := &vpConfig{consulted: map[string]int{}}
	cap := &vpCaptured{}
	vpInstallMainStubs(cfg, cap, "refs/heads/x")
	mode := vp_Choice("mode", 3)
	args := [][]string{{}, {"--json", "--json-version=1"}, {"--json", "--json-version=2"}}[mode]
	full := []string{"TABLE\n", "null\n", "{}\n"}[mode]
	limit := vp_Choice("limit", 8)
	w := &vpFailWriter{limit: limit}
	var stderr bytes.Buffer
	err := mainImplementation(context.Background(), w, &stderr, args)
	if w.failed {
		vp_Assert(err != nil, "a report that could not be written completely to stdout does not end in status 0")
	} else {
		vp_Assert(err == nil, "runs")
		vp_Assert(string(w.data) == full, "an undisturbed run writes the whole report")
	}
	if limit < len(full) {
		vp_Assert(err != nil, "stdout too small for the report: the run fails")
	}
	vp_Reach("end")
}

// VPH_mainCrossFamily (C14): the four option families are independent of each
// other. Each family contributes at most one command-line option here (the
// sequences within a family are VPH_mainOptions' subject), every gitconfig key
// is absent, valid or invalid, and each setting that reaches the scan and the
// renderer must be "the family's option, else its gitconfig key, else the
// default" - whatever the other families say (e.g. sizer.names with --json).
func VPH_mainCrossFamily() {
	if vp_Native() {
		vp_Reach("end")
		return
	}
	var args []string
	wantThr, wantNS, wantProg := 1.0, sizes.NameStyleFull, false
	thrOpt := vp_Choice("threshold option", 2) == 1
	if thrOpt {
		args = append(args, "--critical")
		wantThr = 30
	}
	nsOpt := vp_Choice("names option", 2) == 1
	if nsOpt {
		args = append(args, "--names=none")
		wantNS = sizes.NameStyleNone
	}
	jsonMode := vp_Choice("json options", 3) // 0 table, 1 -j, 2 -j --json-version=2
	switch jsonMode {
	case 1:
		args = append(args, "-j")
	case 2:
		args = append(args, "-j", "--json-version=2")
	}
	progOpt := vp_Choice("progress option", 2) == 1
	if progOpt {
		args = append(args, "--progress")
		wantProg = true
	}
	cfg := &vpConfig{consulted: map[string]int{}}
	cfg.threshold = vp_Choice("cfg.threshold", 3)
	cfg.names = vp_Choice("cfg.names", 3)
	cfg.jsonVersion = vp_Choice("cfg.jsonVersion", 3)
	cfg.progress = vp_Choice("cfg.progress", 2)
	cap := &vpCaptured{}
	vpInstallMainStubs(cfg, cap, "refs/heads/x")
	var stdout, stderr bytes.Buffer
	err := mainImplementation(context.Background(), &stdout, &stderr, args)

	wantErr := false
	if !thrOpt {
		switch cfg.threshold {
		case 1:
			wantThr = 0.1
		case 2:
			wantErr = true
		}
	}
	if !nsOpt {
		switch cfg.names {
		case 1:
			wantNS = sizes.NameStyleHash
		case 2:
			wantErr = true
		}
	}
	jsonVer := 1
	switch jsonMode {
	case 1:
		switch cfg.jsonVersion {
		case 1:
			jsonVer = 2
		case 2:
			wantErr = true
		}
	case 2:
		jsonVer = 2
	}
	if !progOpt && cfg.progress == 1 {
		wantProg = true
	}
	vp_Assert((err != nil) == wantErr, "error exactly for an invalid gitconfig value whose family has no option on the command line")
	if err != nil || wantErr {
		vp_Assert(stdout.Len() == 0, "no report on error")
		vp_Reach("error")
		return
	}
	vp_Assert(cap.scanStyle == wantNS, "names (as used by the scan): the option, else sizer.names, else full - in every output format")
	vp_Assert(cap.progress == wantProg, "progress: the option, else sizer.progress, else off")
	switch {
	case jsonMode == 0:
		vp_Assert(cap.output == "table" && cap.outputs == 1 && vp_JSONCalls() == 0, "table unless --json")
		vp_Assert(float64(cap.threshold) == wantThr && cap.nameStyle == wantNS, "the table gets the effective threshold and name style")
	case jsonVer == 2:
		vp_Assert(cap.output == "json2" && cap.outputs == 1, "JSON v2")
		vp_Assert(float64(cap.threshold) == wantThr && cap.nameStyle == wantNS, "JSON v2 gets the effective threshold and name style")
	default:
		vp_Assert(cap.outputs == 0 && vp_JSONCalls() == 1, "JSON v1 = encoding/json of the measurements")
	}
	vp_Reach("ok")
}

// VPH_mainShorthands (C06, last sentence): --branches, --tags, --remotes,
// --notes, --stash and their --no- forms are fixed rules - the prefix
// refs/heads, refs/tags, refs/remotes, refs/notes (matching at a '/' boundary,
// so also the reference named exactly like the prefix) and the exact name
// refs/stash - and not the like-named refgroups: gitconfig entries that
// augment the built-in groups do not change them.
func VPH_mainShorthands() {
	if vp_Native() {
		vp_Reach("end")
		return
	}
	type sh struct {
		flag, group, rule string
		exact             bool
	}
	menu := []sh{{"branches", "branches", "refs/heads", false}, {"tags", "tags", "refs/tags", false}, {"remotes", "remotes", "refs/remotes", false},
		{"notes", "notes", "refs/notes", false}, {"stash", "stash", "refs/stash", true}}
	s := menu[vp_Choice("shorthand", len(menu))]
	inc := vp_Choice("negated", 2) == 0
	arg := "--" + s.flag
	if !inc {
		arg = "--no-" + s.flag
	}
	cfg := &vpConfig{consulted: map[string]int{}}
	switch vp_Choice("gitconfig", 3) {
	case 1:
		cfg.entries = []git.ConfigEntry{{Key: "refgroup." + s.group + ".exclude", Value: s.rule + "/wip"}}
	case 2:
		cfg.entries = []git.ConfigEntry{{Key: "refgroup." + s.group + ".include", Value: "refs/other"}}
	}
	// the probe name: the rule's own text or a configured name, followed by 0..2 free bytes
	base := []string{s.rule, s.rule + "/wip", "refs/other"}[vp_Choice("probe", 3)]
	tail := vp_Str("tail", vp_Choice("taillen", 3))
	vp_AssumeASCII(tail)
	for i := 0; i < len(tail); i++ {
		vp_Assume(tail[i] != '\n')
	}
	probe := base + tail
	cap := &vpCaptured{}
	vpInstallMainStubs(cfg, cap, probe)
	var stdout, stderr bytes.Buffer
	err := mainImplementation(context.Background(), &stdout, &stderr, []string{arg})
	vp_Assert(err == nil, "a shorthand is a valid selection")
	if err != nil {
		return
	}
	matches := probe == s.rule
	if !s.exact && len(probe) > len(s.rule) && probe[:len(s.rule)] == s.rule && probe[len(s.rule)] == '/' {
		matches = true
	}
	// a single option: references it matches get its polarity, the others the opposite
	vp_Assert(cap.walkProbe == (matches == inc), "the shorthand is its fixed prefix / exact-name rule, whatever gitconfig says about the like-named refgroup")
	vp_Reach("end")
}
