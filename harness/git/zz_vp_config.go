package git

import (
	"errors"
	"io/ioutil"
	"os"
	"os/exec"
	"regexp"
	"strings"
)

// H-configparse (C15): Repository.GetConfig on any listing that conforms to
// `git config --list -z` (records `key LF value NUL` or `key NUL`).

// vpRepoWithOutput returns a Repository whose next git command prints out
// (exit status st). Under the engine, GitCommand and (*exec.Cmd).Output are
// stubbed; natively a fake git binary prints the same bytes.
func vpRepoWithOutput(out []byte, st int, ents []vpCfgEntry) *Repository {
	if vp_Native() {
		f, err := ioutil.TempFile("", "vpfake")
		if err != nil {
			panic(err)
		}
		f.Write(out)
		f.Close()
		os.Setenv("VP_FAKE_OUT", f.Name())
		os.Setenv("VP_FAKE_STATUS", "0")
		if st != 0 {
			os.Setenv("VP_FAKE_STATUS", "1")
		}
		return &Repository{gitDir: ".", gitBin: "/verif/harness/_rt/fakegit"}
	}
	getRegexp, pattern := false, ""
	vp_Stub("(*github.com/github/git-sizer/git.Repository).GitCommand", func(r *Repository, args ...string) *exec.Cmd {
		// the scripted bytes are what git prints for exactly this command
		okCmd := len(args) == 3 && args[0] == "config" &&
			((args[1] == "--list" && args[2] == "-z") || (args[1] == "-z" && args[2] == "--list"))
		if !okCmd && len(args) == 4 && args[0] == "config" &&
			((args[1] == "--get-regexp" && args[2] == "-z") || (args[1] == "-z" && args[2] == "--get-regexp")) {
			// `git config -z --get-regexp P`: modelled below (same record format as --list -z)
			okCmd, getRegexp, pattern = true, true, args[3]
		}
		if !okCmd {
			vp_Inconclusive("GetConfig issued a git command whose output format is not modelled: " + strings.Join(args, " "))
		}
		return &exec.Cmd{Args: args}
	})
	vp_Stub("(*os/exec.Cmd).Output", func(c *exec.Cmd) ([]byte, error) {
		if st != 0 {
			return nil, &exec.ExitError{}
		}
		if getRegexp {
			return vpGetRegexpModel(pattern, ents)
		}
		return out, nil
	})
	return &Repository{gitDir: ".", gitBin: "git"}
}

// vpGetRegexpModel: git's contract for `git config -z --get-regexp P`
// (builtin/config.c; compared with git 2.39.5 on the menus used here, see
// DESIGN): P is lower-cased from its start to its first '.' and from its end
// back to its last '.', compiled as a POSIX ERE (exit status 6 when invalid),
// and searched (not anchored) in each canonical key, in listing order; the
// matching entries are printed as `key LF value NUL` / `key NUL`; exit status
// 1 when nothing matched. Only the ERE subset on which Go's syntax agrees
// with POSIX is answered: literals, escaped punctuation, ^ $ . ( ) | - others
// are INCONCLUSIVE.
func vpGetRegexpModel(pattern string, ents []vpCfgEntry) ([]byte, error) {
	b := []byte(pattern)
	for i := len(b) - 1; i >= 0 && b[i] != '.'; i-- {
		if 'A' <= b[i] && b[i] <= 'Z' {
			b[i] += 'a' - 'A'
		}
	}
	for i := 0; i < len(b) && b[i] != '.'; i++ {
		if 'A' <= b[i] && b[i] <= 'Z' {
			b[i] += 'a' - 'A'
		}
	}
	for i := 0; i < len(b); i++ {
		c := b[i]
		if c == '\\' {
			i++
			if i >= len(b) || !strings.ContainsRune(".()[]{}+*?|^$\\", rune(b[i])) {
				vp_Inconclusive("--get-regexp pattern outside the modelled ERE subset: " + pattern)
			}
			continue
		}
		plain := 'a' <= c && c <= 'z' || 'A' <= c && c <= 'Z' || '0' <= c && c <= '9' || strings.ContainsRune("/_-.^$()|", rune(c))
		if !plain {
			vp_Inconclusive("--get-regexp pattern outside the modelled ERE subset: " + pattern)
		}
	}
	re, err := regexp.Compile(string(b))
	if err != nil {
		vp_ExitCode(6)
		return nil, &exec.ExitError{ProcessState: &os.ProcessState{}}
	}
	var res []byte
	n := 0
	for _, e := range ents {
		if !re.MatchString(e.key) {
			continue
		}
		n++
		res = append(res, e.key...)
		if e.hasValue {
			res = append(res, '\n')
			res = append(res, e.value...)
		}
		res = append(res, 0)
	}
	if n == 0 {
		vp_ExitCode(1)
		return nil, &exec.ExitError{ProcessState: &os.ProcessState{}}
	}
	return res, nil
}

var vpKeyMenu = []string{
	"refgroup.foo.include", "refgroup.foo.name", "refgroup.foobar.exclude", "refgroupx.a.include",
	"core.bare", "refgroup.foo", "refgroup.a.b.includeregexp", "refgroup.foo.Exclude",
}

type vpCfgEntry struct {
	key      string
	value    string
	hasValue bool
}

func vpKeyMatch(key, prefix string) (bool, string) {
	if prefix == "" {
		return true, key
	}
	if len(key) < len(prefix) || key[:len(prefix)] != prefix {
		return false, ""
	}
	if prefix[len(prefix)-1] == '.' {
		return true, key[len(prefix):]
	}
	if len(key) == len(prefix) {
		return true, ""
	}
	if key[len(prefix)] == '.' {
		return true, key[len(prefix)+1:]
	}
	return false, ""
}

func VPH_configParse() {
	k := vp_Choice("entries", vp_Param("kmax")+1)
	vmax := vp_Param("vmax")
	var ents []vpCfgEntry
	var out []byte
	anyValueless := false
	for i := 0; i < k; i++ {
		e := vpCfgEntry{key: vpKeyMenu[vp_Choice("key", len(vpKeyMenu))]}
		e.hasValue = vp_Choice("hasvalue", 2) == 1
		out = append(out, e.key...)
		if e.hasValue {
			vl := vp_Choice("vlen", vmax+1)
			v := vp_Bytes("v", vl)
			for _, c := range v {
				vp_Assume(c != 0) // a value can hold anything but NUL (LF allowed)
			}
			e.value = string(v)
			out = append(out, '\n')
			out = append(out, v...)
		} else {
			anyValueless = true
		}
		out = append(out, 0)
		ents = append(ents, e)
	}
	// git-sizer always passes -c advice.graftFileDeprecated=false, which git lists last
	out = append(out, "advice.graftfiledeprecated\nfalse\x00"...)
	ents = append(ents, vpCfgEntry{"advice.graftfiledeprecated", "false", true})

	prefix := []string{"refgroup", "refgroup.foo", "", "refgroup."}[vp_Choice("prefix", 4)]
	repo := vpRepoWithOutput(out, 0, ents)
	var cfg *Config
	var err error
	panicked := vp_Catch(func() { cfg, err = repo.GetConfig(prefix) })
	vp_Assert(!panicked, "GetConfig does not panic")
	vp_KnownRegion("KF-g", anyValueless)
	vp_Assert(err == nil, "a conforming listing is accepted")
	if panicked || err != nil {
		vp_KnownRegionEnd("KF-g")
		return
	}
	var want []ConfigEntry
	for _, e := range ents {
		if ok, rest := vpKeyMatch(e.key, prefix); ok {
			want = append(want, ConfigEntry{rest, e.value})
		}
	}
	vp_Assert(len(cfg.Entries) == len(want), "exactly the entries of the section, no leaks, none lost")
	for i := 0; i < len(want) && i < len(cfg.Entries); i++ {
		vp_Assert(cfg.Entries[i].Key == want[i].Key, "keys in git's order")
		vp_Assert(cfg.Entries[i].Value == want[i].Value, "values byte-exact")
	}
	vp_KnownRegionEnd("KF-g")
	vp_Reach("end")
}

// VPH_configSubsections (C15): refgroup names are subsections: case-sensitive,
// any character. Entries of groups that differ only in case, or whose names
// hold regular-expression metacharacters, are read exactly - also when the
// code lets git pre-filter the listing (`--get-regexp`, modelled above).
var vpSubKeyMenu = []string{
	"refgroup.Foo.include", "refgroup.foo.include", "refgroup.a(b).name", "refgroup.ab.name",
	"refgroup.foo.Bar.exclude", "refgroup.foo.bar.exclude", "core.bare", "refgroup.a.b.include", "refgroup.axb.include",
}

func VPH_configSubsections() {
	k := vp_Choice("entries", vp_Param("kmax")+1)
	var ents []vpCfgEntry
	var out []byte
	for i := 0; i < k; i++ {
		e := vpCfgEntry{key: vpSubKeyMenu[vp_Choice("key", len(vpSubKeyMenu))], hasValue: true}
		v := vp_Bytes("v", 1)
		vp_Assume(v[0] != 0)
		e.value = string(v)
		out = append(out, e.key...)
		out = append(out, '\n')
		out = append(out, v...)
		out = append(out, 0)
		ents = append(ents, e)
	}
	out = append(out, "advice.graftfiledeprecated\nfalse\x00"...)
	ents = append(ents, vpCfgEntry{"advice.graftfiledeprecated", "false", true})
	prefixes := []string{"refgroup.Foo", "refgroup.foo", "refgroup.a(b)", "refgroup.foo.Bar", "refgroup.a.b", "refgroup"}
	prefix := prefixes[vp_Choice("prefix", len(prefixes))]
	repo := vpRepoWithOutput(out, 0, ents)
	var cfg *Config
	var err error
	panicked := vp_Catch(func() { cfg, err = repo.GetConfig(prefix) })
	vp_Assert(!panicked, "GetConfig does not panic")
	vp_Assert(err == nil, "a section that exists or not is read without error")
	if panicked || err != nil {
		return
	}
	var want []ConfigEntry
	for _, e := range ents {
		if ok, rest := vpKeyMatch(e.key, prefix); ok {
			want = append(want, ConfigEntry{rest, e.value})
		}
	}
	vp_Assert(len(cfg.Entries) == len(want), "exactly the entries of the (case-sensitive, verbatim) subsection")
	for i := 0; i < len(want) && i < len(cfg.Entries); i++ {
		vp_Assert(cfg.Entries[i].Key == want[i].Key, "keys in git's order")
		vp_Assert(cfg.Entries[i].Value == want[i].Value, "values byte-exact")
	}
	vp_Reach("end")
}

// VPH_keyPrefix: configKeyMatchesPrefix on free strings against the direct spec.
func VPH_keyPrefix() {
	kl := vp_Choice("klen", vp_Param("kmax")+1)
	pl := vp_Choice("plen", vp_Param("pmax")+1)
	key := vp_Str("key", kl)
	prefix := vp_Str("prefix", pl)
	ok, rest := configKeyMatchesPrefix(key, prefix)
	// spec
	wantOK := false
	wantRest := ""
	if pl == 0 {
		wantOK, wantRest = true, key
		vp_Assert(ok, "empty prefix matches")
		vp_Assert(rest == key, "empty prefix strips nothing")
		vp_Reach("end")
		return
	}
	_ = wantRest
	if kl >= pl {
		starts := true
		for i := 0; i < pl; i++ {
			starts = vp_And(starts, key[i] == prefix[i])
		}
		dotEnd := prefix[pl-1] == '.'
		if kl == pl {
			wantOK = starts
			vp_Assert(ok == wantOK, "equal length: match iff equal")
			if ok {
				vp_Assert(rest == "", "nothing left")
			}
		} else {
			wantOK = vp_And(starts, vp_Or(dotEnd, key[pl] == '.'))
			vp_Assert(ok == wantOK, "match iff prefix ends at a '.' boundary")
			if ok {
				if dotEnd {
					vp_Assert(rest == key[pl:], "rest after a dotted prefix")
				} else {
					vp_Assert(rest == key[pl+1:], "rest after the separating dot")
				}
			}
		}
	} else {
		vp_Assert(!ok, "key shorter than prefix never matches")
	}
	vp_Reach("end")
}

// VP_KeyMatch exposes the real key/prefix matcher to harnesses of other packages.
func VP_KeyMatch(key, prefix string) (bool, string) { return configKeyMatchesPrefix(key, prefix) }

// H-configdefaults (C14): sizer.* settings are read with git's own typing, so
// every spelling git accepts for a boolean or an integer has the effect of the
// corresponding option. git's side is modelled: `git config --get --bool`
// prints the canonical true/false, `--get --int` the canonical decimal (with
// k/m/g suffixes expanded), plain `--get` the raw value; exit status 1 = unset.
// vpModelKey is the key the scripted gitconfig holds (as the user wrote it).
var vpModelKey = "sizer.x"

func vpGitConfigModel(raw string, unset bool, valueless bool) {
	var last []string
	vp_Stub("(*github.com/github/git-sizer/git.Repository).GitCommand", func(r *Repository, args ...string) *exec.Cmd {
		last = args
		return &exec.Cmd{}
	})
	vp_Stub("(*os/exec.Cmd).Output", func(c *exec.Cmd) ([]byte, error) {
		if len(last) >= 2 && last[0] == "config" && (last[1] == "--list" || last[1] == "-l" || last[1] == "-z") {
			// the listing prints canonical keys: section and variable name in lower case
			listing := "core.bare\nfalse\x00"
			if !unset {
				listing += strings.ToLower(vpModelKey)
				if !valueless {
					listing += "\n" + raw
				}
				listing += "\x00"
			}
			return []byte(listing), nil
		}
		if len(last) < 3 || last[0] != "config" || last[1] != "--get" {
			vp_Inconclusive("a git config command with no modelled answer: " + strings.Join(last, " "))
		}
		if unset {
			vp_ExitCode(1)
			return nil, &exec.ExitError{ProcessState: &os.ProcessState{}}
		}
		typ := ""
		if len(last) == 4 {
			typ = last[2]
		}
		switch typ {
		case "--bool", "--type=bool":
			if valueless {
				return []byte("true\n"), nil
			}
			switch strings.ToLower(raw) {
			case "true", "yes", "on", "1":
				return []byte("true\n"), nil
			case "false", "no", "off", "0", "":
				return []byte("false\n"), nil
			}
			vp_ExitCode(128)
			return nil, &exec.ExitError{ProcessState: &os.ProcessState{}}
		case "--int", "--type=int":
			switch raw {
			case "2", "1", "3":
				return []byte(raw + "\n"), nil
			case "1k":
				return []byte("1024\n"), nil
			}
			vp_ExitCode(128)
			return nil, &exec.ExitError{ProcessState: &os.ProcessState{}}
		case "":
			return []byte(raw + "\n"), nil
		}
		vp_Inconclusive("a git config type option with no modelled answer: " + typ)
		return nil, nil
	})
}

func VPH_configDefaults() {
	if vp_Native() {
		vp_Reach("end")
		return
	}
	repo := &Repository{gitDir: ".", gitBin: "git"}
	switch vp_Choice("kind", 3) {
	case 0: // booleans
		spell := []string{"true", "yes", "on", "1", "Yes", "ON", "false", "no", "off", "0", "No"}
		i := vp_Choice("spelling", len(spell)+2)
		unset, valueless := i == len(spell), i == len(spell)+1
		raw := ""
		if i < len(spell) {
			raw = spell[i]
		}
		vpModelKey = "sizer.progress"
		vpGitConfigModel(raw, unset, valueless)
		def := vp_Choice("default", 2) == 1
		if i < len(spell) && vp_Choice("invalid", 2) == 1 {
			// a value git refuses to read as a boolean (exit status 128): the same as an invalid option value
			vpGitConfigModel("maybe", false, false)
			_, err := repo.ConfigBoolDefault("sizer.progress", def)
			vp_Assert(err != nil, "a value git rejects for the type is an error, not the default")
			vp_Reach("bool")
			return
		}
		got, err := repo.ConfigBoolDefault("sizer.progress", def)
		vp_Assert(err == nil, "every boolean spelling git accepts is accepted")
		want := def
		if !unset {
			want = valueless || i < 6
		}
		vp_Assert(got == want, "a boolean setting has git's meaning (yes/on/1/valueless = true, no/off/0 = false, unset = default)")
		vp_Reach("bool")
	case 1: // integers
		raws := []string{"1", "2", "3", "1k"}
		i := vp_Choice("value", len(raws)+1)
		unset := i == len(raws)
		raw := ""
		if !unset {
			raw = raws[i]
		}
		vpModelKey = "sizer.jsonVersion"
		vpGitConfigModel(raw, unset, false)
		if !unset && vp_Choice("invalid", 2) == 1 {
			vpGitConfigModel("two", false, false)
			_, err := repo.ConfigIntDefault("sizer.jsonVersion", 7)
			vp_Assert(err != nil, "a value git rejects for the type is an error, not the default")
			vp_Reach("int")
			return
		}
		got, err := repo.ConfigIntDefault("sizer.jsonVersion", 7)
		vp_Assert(err == nil, "every integer spelling git accepts is accepted")
		want := 7
		if !unset {
			want = []int{1, 2, 3, 1024}[i]
		}
		vp_Assert(got == want, "an integer setting has git's meaning (suffixes expanded, unset = default)")
		vp_Reach("int")
	case 2: // strings
		raws := []string{"hash", "0.5", "", " spaced "}
		i := vp_Choice("value", len(raws)+1)
		unset := i == len(raws)
		raw := ""
		if !unset {
			raw = raws[i]
		}
		vpModelKey = "sizer.names"
		vpGitConfigModel(raw, unset, false)
		got, err := repo.ConfigStringDefault("sizer.names", "dflt")
		vp_Assert(err == nil, "string settings are read")
		want := "dflt"
		if !unset {
			want = raw
		}
		vp_Assert(got == want, "a string setting is returned exactly (only git's trailing LF removed), unset = default")
		vp_Reach("string")
	}
}

// VPH_configFaults (C10): the three typed getters behind sizer.* report every
// failure of their `git config` subprocess other than git's documented
// "not set" status 1: a fatal status (128: invalid value for the type, 2, 129),
// a killed process (no exit status), a process that could not be started, a
// failure after partial output, and - for the typed getters - an answer that
// is not of the requested type.
func VPH_configFaults() {
	if vp_Native() {
		vp_Reach("end")
		return
	}
	repo := &Repository{gitDir: ".", gitBin: "git"}
	kind := vp_Choice("kind", 3)
	fault := vp_Choice("fault", 7)
	vp_Stub("(*github.com/github/git-sizer/git.Repository).GitCommand", func(r *Repository, args ...string) *exec.Cmd {
		return &exec.Cmd{}
	})
	vp_Stub("(*os/exec.Cmd).Output", func(c *exec.Cmd) ([]byte, error) {
		switch fault {
		case 0:
			vp_ExitCode(128)
			return nil, &exec.ExitError{ProcessState: &os.ProcessState{}}
		case 1:
			vp_ExitCode(2)
			return nil, &exec.ExitError{ProcessState: &os.ProcessState{}}
		case 2:
			vp_ExitCode(129)
			return nil, &exec.ExitError{ProcessState: &os.ProcessState{}}
		case 3: // killed by a signal: ExitCode() is -1
			vp_ExitCode(-1)
			return nil, &exec.ExitError{ProcessState: &os.ProcessState{}}
		case 4: // could not be started
			return nil, errors.New("exec: \"git\": executable file not found in $PATH")
		case 5: // died after part of its answer
			vp_ExitCode(128)
			return []byte("tr"), &exec.ExitError{ProcessState: &os.ProcessState{}}
		}
		// an answer of the wrong type (exit status 0)
		return []byte("maybe\n"), nil
	})
	var err error
	switch kind {
	case 0:
		_, err = repo.ConfigBoolDefault("sizer.progress", vp_Choice("default", 2) == 1)
	case 1:
		_, err = repo.ConfigIntDefault("sizer.jsonVersion", 1)
	case 2:
		if fault == 6 {
			vp_Reach("end")
			return // any text is a string
		}
		_, err = repo.ConfigStringDefault("sizer.names", "full")
	}
	vp_Assert(err != nil, "a failed or garbled `git config` is reported, not replaced by the default")
	vp_Reach("end")
}
