package sizes

import (
	"github.com/github/git-sizer/counts"
	"github.com/github/git-sizer/git"
)

// H-record: one record* step of the history aggregation from an arbitrary
// pre-state (C01 census, C02 maxima, C03/C04 running maxima, C05 saturation,
// C08 witness invariant).

var vpOID = git.OID{}

func vpStyle() NameStyle {
	// 0 none, 1 hash
	return NameStyle(vp_Choice("namestyle", 2))
}

func VPH_recordBlob() {
	style := vpStyle()
	g := NewGraph(style)
	s := &g.historySize
	vpFreeHistory(s)
	size := vp_U32("size")
	want := vpNumbers(s)
	oldPath := s.MaxBlobSizeBlob

	s.recordBlob(g, vpOID, BlobSize{counts.Count32(size)})

	want[vpiBlobs] = vpInc32(want[vpiBlobs])
	want[vpiBlobBytes] = vpSat64(want[vpiBlobBytes], uint64(size))
	oldMax := want[vpiMaxBlob]
	want[vpiMaxBlob] = vpMax(oldMax, uint64(size))
	vpExpect(vpNumbers(s), want, "recordBlob")
	vpWitness(style, s.MaxBlobSizeBlob, oldPath, uint64(size) > oldMax, "blob")
	vp_Reach("end")
}

// vpWitness: the cited object is replaced exactly when the maximum was
// raised, names the recorded object with the right kind, and with
// --names=none nothing is ever cited.
func vpWitness(style NameStyle, now, before *Path, replaced bool, kind string) {
	if style == NameStyleNone {
		vp_Assert(now == nil, "names=none: no object is cited ("+kind+")")
		return
	}
	if replaced {
		vp_Assert(now != nil, "witness set when maximum raised: "+kind)
		if now != nil {
			vp_Assert(now.OID == vpOID, "witness is the recorded object: "+kind)
			vp_Assert(now.objectType == kind, "witness kind: "+kind)
		}
	} else {
		vp_Assert(now == before, "witness kept when maximum not raised: "+kind)
	}
}

func VPH_recordTree() {
	style := vpStyle()
	g := NewGraph(style)
	s := &g.historySize
	vpFreeHistory(s)
	ts := vpFreeTreeSize("t")
	size := vp_U32("size")
	entries := vp_U32("entries")
	want := vpNumbers(s)
	old := want
	oldEntriesPath, oldDepthPath := s.MaxTreeEntriesTree, s.MaxPathDepthTree
	oldLenPath, oldXTreesPath, oldXBlobsPath := s.MaxPathLengthTree, s.MaxExpandedTreeCountTree, s.MaxExpandedBlobCountTree
	oldXBytesPath, oldXLinksPath, oldXSubsPath := s.MaxExpandedBlobSizeTree, s.MaxExpandedLinkCountTree, s.MaxExpandedSubmoduleCountTree

	s.recordTree(g, vpOID, ts, counts.Count32(size), counts.Count32(entries))

	want[vpiTrees] = vpInc32(want[vpiTrees])
	want[vpiTreeBytes] = vpSat64(want[vpiTreeBytes], uint64(size))
	want[vpiEntries] = vpSat64(want[vpiEntries], uint64(entries))
	want[vpiMaxEntries] = vpMax(want[vpiMaxEntries], uint64(entries))
	want[vpiPDepth] = vpMax(want[vpiPDepth], uint64(ts.MaxPathDepth))
	want[vpiPLen] = vpMax(want[vpiPLen], uint64(ts.MaxPathLength))
	want[vpiXTrees] = vpMax(want[vpiXTrees], uint64(ts.ExpandedTreeCount))
	want[vpiXBlobs] = vpMax(want[vpiXBlobs], uint64(ts.ExpandedBlobCount))
	want[vpiXBytes] = vpMax(want[vpiXBytes], uint64(ts.ExpandedBlobSize))
	want[vpiXLinks] = vpMax(want[vpiXLinks], uint64(ts.ExpandedLinkCount))
	want[vpiXSubs] = vpMax(want[vpiXSubs], uint64(ts.ExpandedSubmoduleCount))
	vpExpect(vpNumbers(s), want, "recordTree")
	vpWitness(style, s.MaxTreeEntriesTree, oldEntriesPath, uint64(entries) > old[vpiMaxEntries], "tree")
	vpWitness(style, s.MaxPathDepthTree, oldDepthPath, uint64(ts.MaxPathDepth) > old[vpiPDepth], "tree")
	// each of the eight tree metrics keeps its own witness (C08)
	vpWitness(style, s.MaxPathLengthTree, oldLenPath, uint64(ts.MaxPathLength) > old[vpiPLen], "tree")
	vpWitness(style, s.MaxExpandedTreeCountTree, oldXTreesPath, uint64(ts.ExpandedTreeCount) > old[vpiXTrees], "tree")
	vpWitness(style, s.MaxExpandedBlobCountTree, oldXBlobsPath, uint64(ts.ExpandedBlobCount) > old[vpiXBlobs], "tree")
	vpWitness(style, s.MaxExpandedBlobSizeTree, oldXBytesPath, uint64(ts.ExpandedBlobSize) > old[vpiXBytes], "tree")
	vpWitness(style, s.MaxExpandedLinkCountTree, oldXLinksPath, uint64(ts.ExpandedLinkCount) > old[vpiXLinks], "tree")
	vpWitness(style, s.MaxExpandedSubmoduleCountTree, oldXSubsPath, uint64(ts.ExpandedSubmoduleCount) > old[vpiXSubs], "tree")
	vp_Reach("end")
}

func VPH_recordCommit() {
	style := vpStyle()
	g := NewGraph(style)
	s := &g.historySize
	vpFreeHistory(s)
	size := vp_U32("size")
	parents := vp_U32("parents")
	depth := vp_U32("depth")
	want := vpNumbers(s)
	old := want
	oldSizePath, oldParentsPath := s.MaxCommitSizeCommit, s.MaxParentCountCommit

	s.recordCommit(g, vpOID, CommitSize{counts.Count32(depth)}, counts.Count32(size), counts.Count32(parents))

	want[vpiCommits] = vpInc32(want[vpiCommits])
	want[vpiCommitBytes] = vpSat64(want[vpiCommitBytes], uint64(size))
	want[vpiMaxCommit] = vpMax(want[vpiMaxCommit], uint64(size))
	want[vpiDepth] = vpMax(want[vpiDepth], uint64(depth))
	want[vpiParents] = vpMax(want[vpiParents], uint64(parents))
	vpExpect(vpNumbers(s), want, "recordCommit")
	// commits use >= (prefer the newest on ties)
	vpWitness(style, s.MaxCommitSizeCommit, oldSizePath, uint64(size) >= old[vpiMaxCommit], "commit")
	vpWitness(style, s.MaxParentCountCommit, oldParentsPath, uint64(parents) >= old[vpiParents], "commit")
	vp_Reach("end")
}

func VPH_recordTag() {
	style := vpStyle()
	g := NewGraph(style)
	s := &g.historySize
	vpFreeHistory(s)
	size := vp_U32("size")
	depth := vp_U32("depth")
	want := vpNumbers(s)
	old := want
	oldPath := s.MaxTagDepthTag

	s.recordTag(g, vpOID, TagSize{counts.Count32(depth)}, counts.Count32(size))

	want[vpiTags] = vpInc32(want[vpiTags])
	want[vpiTagDepth] = vpMax(want[vpiTagDepth], uint64(depth))
	vpExpect(vpNumbers(s), want, "recordTag")
	vpWitness(style, s.MaxTagDepthTag, oldPath, uint64(depth) > old[vpiTagDepth], "tag")
	vp_Reach("end")
}

func VPH_recordReference() {
	g := NewGraph(NameStyleNone)
	s := &g.historySize
	vpFreeHistory(s)
	want := vpNumbers(s)
	s.recordReference(g, git.Reference{})
	want[vpiRefs] = vpInc32(want[vpiRefs])
	vpExpect(vpNumbers(s), want, "recordReference")
	// group tallies: first sighting creates 1, later ones increment with saturation
	c0 := vp_U32("tally")
	n := counts.Count32(c0)
	s.ReferenceGroups["a"] = &n
	s.recordReferenceGroup(g, "a")
	s.recordReferenceGroup(g, "b")
	vp_Assert(uint64(*s.ReferenceGroups["a"]) == vpInc32(uint64(c0)), "existing group tally+1")
	vp_Assert(uint64(*s.ReferenceGroups["b"]) == 1, "new group tally=1")
	vp_Assert(len(s.ReferenceGroups) == 2, "no other group touched")
	vp_Reach("end")
}
