// Package symex is a symbolic interpreter for go/ssa, structured after
// golang.org/x/tools/go/ssa/interp (BSD licence) but with symbolic scalars:
// every bool / integer / float64 is an *smt.Term (constant-folded when
// concrete), strings carry per-byte terms, and the heap shape is concrete.
package symex

import (
	"fmt"
	"go/types"
	"strings"

	"golang.org/x/tools/go/ssa"

	"verif/engine/smt"
)

type Value interface{}

type Tuple []Value
type Array []Value
type Struct []Value

type Iface struct {
	T types.Type // dynamic type, nil for nil interface
	V Value
}

type Closure struct {
	Fn  *ssa.Function
	Env []Value
}

// Chan is a sequentialised channel: a FIFO queue.
type Chan struct {
	q      []Value
	cap    int
	closed bool
	elemT  types.Type
}

// NativeFn is a function value implemented by the engine (e.g. the cancel
// function of the context model).
type NativeFn func(args []Value) Value

type bad struct{}

// Str is a Go string value.
type Str struct {
	c   string      // concrete contents when sym == nil && opq == nil && tok == nil
	sym []*smt.Term // per-byte terms (BV8)
	opq *smt.Term   // opaque string: only its length (BV64) is known
	tok *FmtTok     // result of Sprintf on a symbolic scalar
	// approx marks a string whose contents were not modelled (error texts
	// built from symbolic data); observing it aborts the path.
	approx bool
}

// FmtTok is the uninterpreted result of fmt.Sprintf(format, arg) for one
// symbolic scalar argument.
type FmtTok struct {
	Format string
	Arg    *smt.Term
	Signed bool
	X      *XF       // float argument in the Int back end
	Arg2   *smt.Term // second operand of the two-part numeral "%d.%d"
}

func mkStr(s string) Str { return Str{c: s} }

func (s Str) isConcrete() bool { return s.sym == nil && s.opq == nil && s.tok == nil && !s.approx }

func (s Str) shapeKnown() bool { return s.opq == nil && s.tok == nil && !s.approx }

func (s Str) length() int {
	if s.sym != nil {
		return len(s.sym)
	}
	return len(s.c)
}

func (s Str) at(i int) *smt.Term {
	if s.sym != nil {
		return s.sym[i]
	}
	return smt.ConstBV(8, uint64(s.c[i]))
}

func (s Str) bytesT() []*smt.Term {
	if s.sym != nil {
		return s.sym
	}
	r := make([]*smt.Term, len(s.c))
	for i := range r {
		r[i] = smt.ConstBV(8, uint64(s.c[i]))
	}
	return r
}

// strFromTerms builds a Str, collapsing to a concrete string if possible.
func strFromTerms(ts []*smt.Term) Str {
	all := true
	for _, t := range ts {
		if !t.IsConst() {
			all = false
			break
		}
	}
	if all {
		b := make([]byte, len(ts))
		for i, t := range ts {
			b[i] = byte(t.C)
		}
		return Str{c: string(b)}
	}
	cp := make([]*smt.Term, len(ts))
	copy(cp, ts)
	return Str{sym: cp}
}

func (s Str) String() string {
	switch {
	case s.opq != nil:
		return "<opaque string>"
	case s.tok != nil:
		return fmt.Sprintf("<fmt %q>", s.tok.Format)
	case s.approx:
		return "<approx " + s.c + ">"
	case s.sym != nil:
		var sb strings.Builder
		for _, t := range s.sym {
			if t.IsConst() {
				sb.WriteByte(byte(t.C))
			} else {
				sb.WriteString("?")
			}
		}
		return sb.String()
	}
	return s.c
}

// ---------------------------------------------------------------- type info

type kindInfo struct {
	isInt, signed, isFloat, isBool, isString bool
	w                                        int
}

func basicInfo(t types.Type) kindInfo {
	b, ok := t.Underlying().(*types.Basic)
	if !ok {
		return kindInfo{}
	}
	switch b.Kind() {
	case types.Bool, types.UntypedBool:
		return kindInfo{isBool: true}
	case types.Int, types.Int64, types.UntypedInt:
		return kindInfo{isInt: true, signed: true, w: 64}
	case types.Int8:
		return kindInfo{isInt: true, signed: true, w: 8}
	case types.Int16:
		return kindInfo{isInt: true, signed: true, w: 16}
	case types.Int32, types.UntypedRune:
		return kindInfo{isInt: true, signed: true, w: 32}
	case types.Uint, types.Uint64, types.Uintptr:
		return kindInfo{isInt: true, w: 64}
	case types.Uint8:
		return kindInfo{isInt: true, w: 8}
	case types.Uint16:
		return kindInfo{isInt: true, w: 16}
	case types.Uint32:
		return kindInfo{isInt: true, w: 32}
	case types.Float64, types.UntypedFloat:
		return kindInfo{isFloat: true, w: 64}
	case types.Float32:
		return kindInfo{isFloat: true, w: 32}
	case types.String, types.UntypedString:
		return kindInfo{isString: true}
	}
	return kindInfo{}
}

func deref(t types.Type) types.Type {
	if p, ok := t.Underlying().(*types.Pointer); ok {
		return p.Elem()
	}
	panic(fmt.Sprintf("deref: not a pointer: %v", t))
}

// zero returns the zero value of type t.
func zero(t types.Type) Value {
	switch t := t.(type) {
	case *types.Basic:
		if t.Kind() == types.UntypedNil {
			panic("untyped nil has no zero value")
		}
		ki := basicInfo(t)
		switch {
		case ki.isBool:
			return smt.False
		case ki.isInt:
			return smt.ConstBV(ki.w, 0)
		case ki.isFloat:
			return smt.ConstFP(0)
		case ki.isString:
			return Str{}
		}
		if t.Kind() == types.UnsafePointer {
			return (*Value)(nil)
		}
		if t.Kind() == types.Complex128 || t.Kind() == types.Complex64 {
			return complex128(0)
		}
	case *types.Pointer:
		return (*Value)(nil)
	case *types.Array:
		a := make(Array, t.Len())
		for i := range a {
			a[i] = zero(t.Elem())
		}
		return a
	case *types.Named:
		return zero(t.Underlying())
	case *types.Alias:
		return zero(types.Unalias(t))
	case *types.Interface:
		return Iface{}
	case *types.Slice:
		return []Value(nil)
	case *types.Struct:
		s := make(Struct, t.NumFields())
		for i := range s {
			s[i] = zero(t.Field(i).Type())
		}
		return s
	case *types.Tuple:
		if t.Len() == 1 {
			return zero(t.At(0).Type())
		}
		s := make(Tuple, t.Len())
		for i := range s {
			s[i] = zero(t.At(i).Type())
		}
		return s
	case *types.Chan:
		return (*Chan)(nil)
	case *types.Map:
		return (*Map)(nil)
	case *types.Signature:
		return (*ssa.Function)(nil)
	}
	panic(fmt.Sprintf("zero: unexpected %T %v", t, t))
}

// load copies the value of type T out of *addr.
func load(T types.Type, addr *Value) Value {
	switch T := T.Underlying().(type) {
	case *types.Struct:
		v := (*addr).(Struct)
		a := make(Struct, len(v))
		for i := range a {
			a[i] = load(T.Field(i).Type(), &v[i])
		}
		return a
	case *types.Array:
		v := (*addr).(Array)
		a := make(Array, len(v))
		for i := range a {
			a[i] = load(T.Elem(), &v[i])
		}
		return a
	default:
		return *addr
	}
}

// store stores v of type T into *addr (element-wise for aggregates, so that
// interior pointers stay valid).
func store(T types.Type, addr *Value, v Value) {
	switch T := T.Underlying().(type) {
	case *types.Struct:
		lhs := (*addr).(Struct)
		rhs := v.(Struct)
		for i := range lhs {
			store(T.Field(i).Type(), &lhs[i], rhs[i])
		}
	case *types.Array:
		lhs := (*addr).(Array)
		rhs := v.(Array)
		for i := range lhs {
			store(T.Elem(), &lhs[i], rhs[i])
		}
	default:
		*addr = v
	}
}

// copyVal makes an unaliased copy of an aggregate value.
func copyVal(v Value) Value {
	switch v := v.(type) {
	case Struct:
		a := make(Struct, len(v))
		for i := range v {
			a[i] = copyVal(v[i])
		}
		return a
	case Array:
		a := make(Array, len(v))
		for i := range v {
			a[i] = copyVal(v[i])
		}
		return a
	}
	return v
}

func sameType(x, y types.Type) bool {
	if x == nil {
		return y == nil
	}
	return y != nil && types.Identical(x, y)
}

// debugString renders a value for logs/samples.
func debugString(v Value) string {
	switch v := v.(type) {
	case nil:
		return "nil"
	case *smt.Term:
		if v.IsConst() {
			switch v.Sort.K {
			case smt.SBV:
				return fmt.Sprintf("%d", v.C)
			case smt.SBool:
				return fmt.Sprintf("%v", v.C == 1)
			case smt.SFP:
				return fmt.Sprintf("%g", v.F)
			}
		}
		s := v.String()
		if len(s) > 60 {
			s = s[:60] + "…"
		}
		return s
	case Str:
		return fmt.Sprintf("%q", v.String())
	case Struct:
		parts := make([]string, len(v))
		for i, e := range v {
			parts[i] = debugString(e)
		}
		return "{" + strings.Join(parts, " ") + "}"
	case Array:
		if len(v) > 8 {
			return fmt.Sprintf("[%d]array", len(v))
		}
		parts := make([]string, len(v))
		for i, e := range v {
			parts[i] = debugString(e)
		}
		return "[" + strings.Join(parts, " ") + "]"
	case []Value:
		if len(v) > 8 {
			return fmt.Sprintf("[]slice(len=%d)", len(v))
		}
		parts := make([]string, len(v))
		for i, e := range v {
			parts[i] = debugString(e)
		}
		return "[" + strings.Join(parts, " ") + "]"
	case Iface:
		if v.T == nil {
			return "nil-iface"
		}
		return fmt.Sprintf("(%s)%s", v.T, debugString(v.V))
	case *Value:
		if v == nil {
			return "nil-ptr"
		}
		return fmt.Sprintf("&%p", v)
	case Tuple:
		parts := make([]string, len(v))
		for i, e := range v {
			parts[i] = debugString(e)
		}
		return "(" + strings.Join(parts, ", ") + ")"
	}
	return fmt.Sprintf("<%T>", v)
}
