#!/bin/bash
# Regression test of the checks themselves: applies every seeded change to /repo's working tree
# (never committed), runs the check of the property it was seeded for (quick tier unless meta.json names another), compares the exit code
# with the one recorded in seeded/<id>/meta.json, and restores the tree. Not a registered check.
# usage: ./selftest_seeds.sh [pattern]      e.g. ./selftest_seeds.sh C06
cd "$(dirname "$0")"
[ -n "$(git -C /repo status --porcelain)" ] && { echo "/repo working tree is not clean"; exit 2; }
fail=0
for d in seeded/*${1}*/; do
  id=$(basename $d)
  prop=$(python3 -c "import json;print(json.load(open('$d/meta.json'))['property'])")
  want=$(python3 -c "import json;print(json.load(open('$d/meta.json'))['detected_by']['exit'])")
  tier=$(python3 -c "import json;print(json.load(open('$d/meta.json'))['detected_by'].get('tier','quick'))")
  git -C /repo apply "$PWD/$d/patch.diff" || { echo "$id: patch does not apply"; fail=1; continue; }
  out=$(timeout 7200 ./check $prop --tier $tier 2>&1); rc=$?
  git -C /repo checkout -- . ; git -C /repo clean -fdq
  first=$(echo "$out" | grep -m1 '^  harness=' | sed 's/ native=.*//' | cut -c1-160)
  if [ "$rc" = "$want" ]; then echo "ok   $id ($prop) exit=$rc $first"; else echo "FAIL $id ($prop) exit=$rc, recorded $want $first"; fail=1; fi
done
exit $fail
