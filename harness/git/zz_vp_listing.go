package git

// H-listing (C16, C05): the parsers of git's listing output on well-formed
// lines with free fields.

const vpCap32 = uint64(1<<32 - 1)

// vpDigits returns k free decimal digits (no leading zero unless k==1) and their value.
func vpDigits(name string, k int) (string, uint64) {
	b := vp_Bytes(name, k)
	var v uint64
	for i, c := range b {
		vp_Assume(c >= '0')
		vp_Assume(c <= '9')
		if i == 0 && k > 1 {
			vp_Assume(c != '0')
		}
		v = v*10 + uint64(c-'0')
	}
	return string(b), v
}

var vpTypes = [4]string{"blob", "tree", "commit", "tag"}

func VPH_batchHeader() {
	k := 1 + vp_Choice("ndigits", vp_Param("maxdigits"))
	digits, size := vpDigits("size", k)
	typ := vpTypes[vp_Choice("type", 4)]
	hex := vpHexID(0x42)
	line := hex + " " + typ + " " + digits + "\n"
	var h BatchHeader
	var err error
	panicked := vp_Catch(func() { h, err = ParseBatchHeader("", line) })
	vp_Assert(!panicked, "ParseBatchHeader does not panic on a well-formed line")
	vp_Assert(err == nil, "well-formed header parses")
	if panicked || err != nil {
		return
	}
	vp_Assert(h.OID == vpOIDOf(hex), "oid field")
	vp_Assert(string(h.ObjectType) == typ, "type field")
	vp_Assert(uint64(h.ObjectSize) == vp_IteU64(size < vpCap32, size, vpCap32), "size = min(printed size, 2^32-1)")
	vp_Reach("end")
}

func VPH_batchHeaderMissing() {
	name := vpFreeText("spec", 3)
	for i := 0; i < len(name); i++ {
		vp_Assume(name[i] != ' ')
	}
	var err error
	var h BatchHeader
	panicked := vp_Catch(func() { h, err = ParseBatchHeader("", name+" missing\n") })
	vp_Assert(!panicked, "no panic on a 'missing' line")
	vp_Assert(err != nil, "'missing' is an error")
	vp_Assert(h.ObjectType == "missing", "missing header returned")
	vp_Reach("end")
}

func VPH_reference() {
	k := 1 + vp_Choice("ndigits", vp_Param("maxdigits"))
	digits, size := vpDigits("size", k)
	typ := vpTypes[vp_Choice("type", 4)]
	hex := vpHexID(0x43)
	name := "refs/" + vpFreeText("name", 3)
	for i := 5; i < len(name); i++ {
		vp_Assume(name[i] != ' ') // git refnames contain no SP
	}
	line := hex + " " + typ + " " + digits + " " + name
	var r Reference
	var err error
	panicked := vp_Catch(func() { r, err = ParseReference(line) })
	vp_Assert(!panicked, "ParseReference does not panic on a well-formed line")
	vp_KnownRegion("KF-c", size > vpCap32)
	vp_Assert(err == nil, "every well-formed for-each-ref line parses")
	vp_KnownRegionEnd("KF-c")
	if panicked || err != nil {
		return
	}
	vp_Assert(r.OID == vpOIDOf(hex), "oid field")
	vp_Assert(string(r.ObjectType) == typ, "type field")
	vp_Assert(r.Refname == name, "refname bytes exact")
	vp_Assert(uint64(r.ObjectSize) == vp_IteU64(size < vpCap32, size, vpCap32), "size = min(printed size, 2^32-1)")
	vp_Reach("end")
}

// VPH_listingTruncated: every prefix of a valid two-line cat-file listing,
// cut at a line boundary or not, is handled without a crash when fed line by
// line as the real reader does (only LF-terminated lines reach the parser).
func VPH_listingTruncated() {
	full := vpHexID(0x42) + " blob 12\n" + vpHexID(0x43) + " tree 345\n"
	cut := vp_Choice("cut", len(full)+1)
	data := full[:cut]
	for len(data) > 0 {
		i := 0
		for i < len(data) && data[i] != '\n' {
			i++
		}
		if i == len(data) {
			break // incomplete last line: ReadString returns io.EOF, parser not called
		}
		line := data[:i+1]
		data = data[i+1:]
		panicked := vp_Catch(func() { _, _ = ParseBatchHeader("", line) })
		vp_Assert(!panicked, "no panic on a complete line of truncated output")
	}
	vp_Reach("end")
}
