package counts

// H-human (C12): Humaner.FormatNumber for every uint64, both prefix systems.
// Run with the Int back end: n is a mathematical integer in [0, 2^64), the two
// float operations are lowered to exact rounding constraints (DESIGN B.1) and
// Sprintf("%.Nf") is the contract "exact value, rounded half to even".

func vpHumaner() *Humaner {
	if vp_Choice("system", 2) == 0 {
		return &Metric
	}
	return &Binary
}

// vpClass locates the prefix the real code chose from the unit string.
func vpClass(h *Humaner, unitString string) int {
	for i, p := range h.prefixes {
		if p.Name+"B" == unitString {
			return i
		}
	}
	return -1
}

func VPH_human() {
	h := vpHumaner()
	n := vp_U64("n")
	numeral, unitString := h.FormatNumber(n, "B")
	j := vpClass(h, unitString)
	vp_Assert(j >= 0, "unit = prefix + unit")
	if j < 0 {
		return
	}
	M := h.prefixes[j].Multiplier
	zn, zM := vp_ZU(n), vp_ZU(M)
	// (2) the prefix is the largest one not exceeding the value
	if j > 0 {
		vp_Assert(vp_ZLe(zM, zn), "prefix multiplier <= value")
	}
	if j+1 < len(h.prefixes) {
		vp_Assert(vp_ZLt(zn, vp_ZU(h.prefixes[j+1].Multiplier)), "no larger prefix fits")
	}
	N := vp_TokDecimals(numeral)
	d := vp_TokScaled(numeral) // numeral denotes d / 10^N
	if j == 0 {
		// (3) below the first prefix the value is printed exactly
		vp_Assert(N == 0, "no decimals without a prefix")
		vp_Assert(vp_ZEq(d, zn), "values below the first prefix are printed exactly")
		vp_Reach("exact")
		return
	}
	// (1) |d*M - n*10^N| <= M/2   (half a unit of the last displayed digit)
	err2 := vp_ZMul(vp_ZU(2), vp_ZAbs(vp_ZSub(vp_ZMul(d, zM), vp_ZMul(zn, vp_ZPow10(N)))))
	vp_KnownRegion("KF-f", n >= 1<<53)
	vp_Assert(vp_ZLe(err2, zM), "numeral x multiplier within half a unit of the last digit")
	vp_KnownRegionEnd("KF-f")
	// (4) at least three significant digits; (6) the numeral stays inside its class,
	// so that the rendered magnitude is ordered across classes
	vp_Assert(vp_ZLe(vp_ZU(100), d), "at least three significant digits")
	switch N {
	case 2, 1:
		vp_Assert(vp_ZLe(d, vp_ZU(1000)), "numeral within its precision class")
	case 0:
		if j+1 < len(h.prefixes) {
			vp_Assert(vp_ZLe(vp_ZMul(d, zM), vp_ZU(h.prefixes[j+1].Multiplier)), "numeral does not exceed the next prefix")
		}
	default:
		vp_Fail("0, 1 or 2 decimals")
	}
	// (5) at most five characters
	if N > 0 {
		vp_Assert(vp_ZLe(d, vp_ZU(9999)), "at most five characters (d.dd / dd.d / ddd.d)")
	} else {
		vp_Assert(vp_ZLe(d, vp_ZU(99999)), "at most five characters")
	}
	vp_Reach("prefixed")
}

// VPH_humanMonotone: within one prefix and precision class a larger value
// never prints a smaller numeral (with VPH_human's class bounds this gives
// monotonicity of the rendered magnitude over all uint64).
func VPH_humanMonotone() {
	h := vpHumaner()
	n1, n2 := vp_U64("n1"), vp_U64("n2")
	vp_Assume(vp_ZLt(vp_ZU(n1), vp_ZU(n2)))
	num1, u1 := h.FormatNumber(n1, "B")
	num2, u2 := h.FormatNumber(n2, "B")
	if u1 != u2 || vp_TokDecimals(num1) != vp_TokDecimals(num2) {
		vp_Reach("different-class")
		return
	}
	vp_Assert(vp_ZLe(vp_TokScaled(num1), vp_TokScaled(num2)), "n1 < n2 => numeral(n1) <= numeral(n2) within a class")
	vp_Reach("same-class")
}


// VPH_formatOverflow (C05): a saturated counter is rendered as the infinity
// sign, anything else as a numeral.
func VPH_formatOverflow() {
	h := vpHumaner()
	var numeral, unit string
	var saturated bool
	if vp_Choice("width", 2) == 0 {
		c := Count32(vp_U32("c32"))
		saturated = uint64(c) == 1<<32-1
		numeral, unit = h.Format(c, "B")
	} else {
		c := Count64(vp_U64("c64"))
		saturated = uint64(c) == 1<<64-1
		numeral, unit = h.Format(c, "B")
	}
	if vp_IsTok(numeral) {
		vp_Assert(!saturated, "a numeral is printed only for unsaturated values")
		vp_Reach("numeral")
	} else {
		vp_Assert(saturated && numeral == "\u221e" && unit == "B", "saturated: infinity sign")
		vp_Reach("infinity")
	}
}
