package symex

import (
	"fmt"
	"go/token"
	"go/types"
	"os"
	"slices"
	"strings"
	"sync"

	"golang.org/x/tools/go/ssa"

	"verif/engine/smt"
)

// Interp is the state shared (read-only after Init) by all paths.
type Interp struct {
	Prog                  *ssa.Program
	globals               map[*ssa.Global]*Value
	inited                map[*ssa.Package]bool
	models                map[string]*ssa.Function // std function name -> Go-source model
	Trace                 bool
	repoPkgs              map[*ssa.Package]bool
	fmtWrapErr, fmtFmtErr types.Type
	errorsErrorString     types.Type
	Known                 map[string]bool // known-finding ids with status "known"
	mergeMu               sync.Mutex
	mergeCache            map[*ssa.Function]*mergeInfo
	NoMerge               bool
	NoSlice               bool
	fnNames               map[string]bool
	globalCells           map[*Value]bool
}

type deferred struct {
	fn    Value
	args  []Value
	instr *ssa.Defer
	tail  *deferred
}

type frame struct {
	p                *Path
	caller           *frame
	fn               *ssa.Function
	block, prevBlock *ssa.BasicBlock
	env              map[ssa.Value]Value
	locals           []Value
	defers           *deferred
	result           Value
	panicking        bool
	panicVal         interface{}
	phitemps         []Value
}

func (fr *frame) get(key ssa.Value) Value {
	switch key := key.(type) {
	case nil:
		return nil
	case *ssa.Function, *ssa.Builtin:
		return key
	case *ssa.Const:
		return constValue(key)
	case *ssa.Global:
		in := fr.p.in
		if r, ok := in.globals[key]; ok {
			if key.Pkg != nil && !in.inited[key.Pkg] && !fr.p.initPhase {
				fr.p.abortf("read of global %s of package %s whose init was not run", key.Name(), key.Pkg.Pkg.Path())
			}
			return r
		}
	}
	if r, ok := fr.env[key]; ok {
		return r
	}
	panic(fmt.Sprintf("get: no value for %T: %v in %s", key, key.Name(), fr.fn))
}

func (fr *frame) runDefer(d *deferred) {
	var ok bool
	defer func() {
		if !ok {
			r := recover()
			switch r.(type) {
			case abort, stopPath:
				panic(r)
			}
			fr.panicking = true
			fr.panicVal = r
		}
	}()
	fr.p.call(fr, d.instr.Pos(), d.fn, d.args)
	ok = true
}

func (fr *frame) runDefers() {
	for d := fr.defers; d != nil; d = d.tail {
		fr.runDefer(d)
	}
	fr.defers = nil
	if fr.panicking {
		panic(fr.panicVal)
	}
}

func (p *Path) lookupMethod(typ types.Type, meth *types.Func) *ssa.Function {
	return p.in.Prog.LookupMethod(typ, meth.Pkg(), meth.Name())
}

type continuation int

const (
	kNext continuation = iota
	kReturn
	kJump
)

func (p *Path) visitInstr(fr *frame, instr ssa.Instruction) continuation {
	p.steps++
	if p.steps > p.maxSteps {
		p.abortf("step budget %d exceeded (unwinding failure)", p.maxSteps)
	}
	switch instr := instr.(type) {
	case *ssa.DebugRef:

	case *ssa.UnOp:
		fr.env[instr] = p.unop(fr, instr, fr.get(instr.X))

	case *ssa.BinOp:
		fr.env[instr] = p.binop(instr.Op, instr.X.Type(), instr.Y.Type(), fr.get(instr.X), fr.get(instr.Y))

	case *ssa.Call:
		fn, args := p.prepareCall(fr, &instr.Call)
		fr.env[instr] = p.call(fr, instr.Pos(), fn, args)

	case *ssa.ChangeInterface:
		fr.env[instr] = fr.get(instr.X)

	case *ssa.ChangeType:
		fr.env[instr] = fr.get(instr.X)

	case *ssa.Convert:
		fr.env[instr] = p.conv(instr.Type(), instr.X.Type(), fr.get(instr.X))

	case *ssa.SliceToArrayPointer:
		p.abortf("SliceToArrayPointer unsupported")

	case *ssa.MakeInterface:
		fr.env[instr] = Iface{T: instr.X.Type(), V: fr.get(instr.X)}

	case *ssa.Extract:
		fr.env[instr] = fr.get(instr.Tuple).(Tuple)[instr.Index]

	case *ssa.Slice:
		fr.env[instr] = p.slice(instr.X.Type(), fr.get(instr.X), fr.get(instr.Low), fr.get(instr.High), fr.get(instr.Max))

	case *ssa.Return:
		switch len(instr.Results) {
		case 0:
		case 1:
			fr.result = fr.get(instr.Results[0])
		default:
			var res []Value
			for _, r := range instr.Results {
				res = append(res, fr.get(r))
			}
			fr.result = Tuple(res)
		}
		fr.block = nil
		return kReturn

	case *ssa.RunDefers:
		fr.runDefers()

	case *ssa.Panic:
		v := fr.get(instr.X)
		panic(targetPanic{v: v, msg: p.panicMessage(fr, v)})

	case *ssa.Send:
		ch := fr.get(instr.Chan).(*Chan)
		p.chanSend(ch, fr.get(instr.X))

	case *ssa.Store:
		addr := fr.get(instr.Addr).(*Value)
		if addr == nil {
			panic(targetPanic{msg: "nil pointer dereference (store)"})
		}
		if !p.initPhase && rootedAtGlobal(instr.Addr) {
			g := rootGlobal(instr.Addr)
			if g != nil && !strings.HasPrefix(g.Name(), "vp") {
				p.abortf("store to package-level variable %s outside init (globals are shared between paths)", g)
			}
		}
		if !p.initPhase && p.in.globalCells[addr] {
			p.abortf("store into package-level state of the repository through a pointer (execution paths share that memory; harnesses must work on copies)")
		}
		store(deref(instr.Addr.Type()), addr, fr.get(instr.Val))

	case *ssa.If:
		succ := 1
		if p.branch(fr.get(instr.Cond).(*smt.Term)) {
			succ = 0
		}
		fr.prevBlock, fr.block = fr.block, fr.block.Succs[succ]
		return kJump

	case *ssa.Jump:
		fr.prevBlock, fr.block = fr.block, fr.block.Succs[0]
		return kJump

	case *ssa.Defer:
		fn, args := p.prepareCall(fr, &instr.Call)
		defers := &fr.defers
		if instr.DeferStack != nil {
			if into := fr.get(instr.DeferStack); into != nil {
				defers = into.(**deferred)
			}
		}
		*defers = &deferred{fn: fn, args: args, instr: instr, tail: *defers}

	case *ssa.Go:
		// Sequential semantics: run the goroutine to completion at spawn.
		fn, args := p.prepareCall(fr, &instr.Call)
		if p.lazyGo {
			// second schedule: the goroutine runs only when the spawner blocks or yields
			pos := instr.Pos()
			p.pendingGo = append(p.pendingGo, func() { p.call(nil, pos, fn, args) })
		} else {
			p.res.Observed["goroutines-run-at-spawn"] = "yes"
			p.call(nil, instr.Pos(), fn, args)
		}

	case *ssa.MakeChan:
		n := p.concretize(fr.get(instr.Size).(*smt.Term), true, "chan size")
		fr.env[instr] = &Chan{cap: int(n), elemT: instr.Type().Underlying().(*types.Chan).Elem()}

	case *ssa.Alloc:
		var addr *Value
		if instr.Heap {
			addr = new(Value)
			fr.env[instr] = addr
		} else {
			addr = fr.env[instr].(*Value)
		}
		*addr = zero(deref(instr.Type()))

	case *ssa.MakeSlice:
		capN := p.concretize(fr.get(instr.Cap).(*smt.Term), true, "make cap")
		lenN := p.concretize(fr.get(instr.Len).(*smt.Term), true, "make len")
		if lenN < 0 || capN < lenN || capN > 1<<24 {
			panic(targetPanic{msg: fmt.Sprintf("makeslice: len/cap out of range (%d,%d)", lenN, capN)})
		}
		sl := make([]Value, capN)
		tElt := instr.Type().Underlying().(*types.Slice).Elem()
		for i := range sl {
			sl[i] = zero(tElt)
		}
		fr.env[instr] = sl[:lenN]

	case *ssa.MakeMap:
		fr.env[instr] = newMap(instr.Type().Underlying().(*types.Map))

	case *ssa.Range:
		fr.env[instr] = p.rangeIter(fr.get(instr.X), instr.X.Type())

	case *ssa.Next:
		fr.env[instr] = fr.get(instr.Iter).(iter).next(p)

	case *ssa.FieldAddr:
		x := fr.get(instr.X).(*Value)
		if x == nil {
			panic(targetPanic{msg: "nil pointer dereference (field)"})
		}
		fr.env[instr] = &(*x).(Struct)[instr.Field]

	case *ssa.Field:
		fr.env[instr] = fr.get(instr.X).(Struct)[instr.Field]

	case *ssa.IndexAddr:
		x := fr.get(instr.X)
		idx := fr.get(instr.Index).(*smt.Term)
		signed := basicInfo(instr.Index.Type()).signed
		switch x := x.(type) {
		case []Value:
			i := p.index(idx, signed, len(x))
			fr.env[instr] = &x[i]
		case *Value:
			if x == nil {
				panic(targetPanic{msg: "nil pointer dereference (index)"})
			}
			a := (*x).(Array)
			i := p.index(idx, signed, len(a))
			fr.env[instr] = &a[i]
		default:
			panic(fmt.Sprintf("unexpected x type in IndexAddr: %T", x))
		}

	case *ssa.Index:
		x := fr.get(instr.X)
		idx := fr.get(instr.Index).(*smt.Term)
		signed := basicInfo(instr.Index.Type()).signed
		switch x := x.(type) {
		case Array:
			fr.env[instr] = p.indexRead(idx, signed, len(x), func(i int) Value { return x[i] })
		case Str:
			fr.env[instr] = p.strIndex(x, idx, signed)
		default:
			panic(fmt.Sprintf("unexpected x type in Index: %T", x))
		}

	case *ssa.Lookup:
		fr.env[instr] = p.lookup(instr, fr.get(instr.X), fr.get(instr.Index))

	case *ssa.MapUpdate:
		m := fr.get(instr.Map).(*Map)
		if m == nil {
			panic(targetPanic{msg: "assignment to entry in nil map"})
		}
		p.mapInsert(m, fr.get(instr.Key), copyVal(fr.get(instr.Value)))

	case *ssa.TypeAssert:
		fr.env[instr] = p.typeAssert(instr, fr.get(instr.X).(Iface))

	case *ssa.MakeClosure:
		var bindings []Value
		for _, binding := range instr.Bindings {
			bindings = append(bindings, fr.get(binding))
		}
		fr.env[instr] = &Closure{instr.Fn.(*ssa.Function), bindings}

	case *ssa.Phi:
		panic("unreachable: phi")

	case *ssa.Select:
		// sequential semantics: take the first case (in source order) that can proceed
		chosen := -1
		var recvVal Value
		recvOk := false
		for i, st := range instr.States {
			ch, _ := fr.get(st.Chan).(*Chan)
			if ch == nil {
				continue // a nil channel is never ready
			}
			if st.Dir == types.SendOnly {
				if ch.closed {
					panic(targetPanic{msg: "send on closed channel"})
				}
				if len(ch.q) < ch.cap+p.chanSlack {
					ch.q = append(ch.q, copyVal(fr.get(st.Send)))
					chosen = i
					break
				}
			} else if len(ch.q) > 0 || ch.closed {
				recvVal, recvOk = p.chanRecv(ch)
				chosen = i
				break
			}
		}
		if chosen < 0 && instr.Blocking {
			panic(targetPanic{msg: "select: no case can proceed: would block forever (deadlock) in sequential semantics"})
		}
		r := Tuple{intConst(int64(chosen)), smt.ConstBool(recvOk)}
		for i, st := range instr.States {
			if st.Dir == types.RecvOnly {
				if i == chosen && recvOk {
					r = append(r, recvVal)
				} else {
					r = append(r, zero(st.Chan.Type().Underlying().(*types.Chan).Elem()))
				}
			}
		}
		fr.env[instr] = r

	default:
		panic(fmt.Sprintf("unexpected instruction: %T", instr))
	}
	return kNext
}

func rootGlobal(v ssa.Value) *ssa.Global {
	for {
		switch x := v.(type) {
		case *ssa.Global:
			return x
		case *ssa.FieldAddr:
			v = x.X
		case *ssa.IndexAddr:
			v = x.X
		default:
			return nil
		}
	}
}

func rootedAtGlobal(v ssa.Value) bool { return rootGlobal(v) != nil }

func (p *Path) prepareCall(fr *frame, call *ssa.CallCommon) (fn Value, args []Value) {
	v := fr.get(call.Value)
	if call.Method == nil {
		fn = v
	} else {
		recv := v.(Iface)
		if recv.T == nil {
			panic(targetPanic{msg: "method invoked on nil interface: " + call.Method.Name()})
		}
		f := p.lookupMethod(recv.T, call.Method)
		if f == nil {
			panic(fmt.Sprintf("method set for dynamic type %v does not contain %s", recv.T, call.Method))
		}
		fn = f
		args = append(args, recv.V)
	}
	for _, arg := range call.Args {
		args = append(args, fr.get(arg))
	}
	return
}

func (p *Path) call(caller *frame, callpos token.Pos, fn Value, args []Value) Value {
	switch fn := fn.(type) {
	case *ssa.Function:
		if fn == nil {
			panic(targetPanic{msg: "call of nil function"})
		}
		return p.callSSA(caller, callpos, fn, args, nil)
	case *Closure:
		return p.callSSA(caller, callpos, fn.Fn, args, fn.Env)
	case *ssa.Builtin:
		return p.callBuiltin(caller, callpos, fn, args)
	case NativeFn:
		return fn(args)
	}
	panic(fmt.Sprintf("cannot call %T", fn))
}

func (p *Path) callSSA(caller *frame, callpos token.Pos, fn *ssa.Function, args []Value, env []Value) Value {
	p.calls[fn]++
	if fn.Parent() == nil {
		name := fn.String()
		if st, ok := p.stubs[name]; ok {
			if sf, isFn := st.(*ssa.Function); !isFn || sf != fn {
				return p.call(caller, callpos, st, args)
			}
		}
		if r, ok := p.intrinsic(caller, fn, name, args); ok {
			return r
		}
		if m, ok := p.in.models[name]; ok && m != fn {
			return p.callSSA(caller, callpos, m, args, nil)
		}
		if fn.Blocks == nil {
			p.abortf("no code for function %s (external/assembly; needs a model or stub)", name)
		}
	}
	if fn.TypeParams().Len() > 0 && len(fn.TypeArgs()) == 0 {
		p.abortf("uninstantiated generic function %s", fn)
	}
	if r, ok := p.tryMergeCall(fn, args, env); ok {
		return r
	}
	p.depth++
	if p.depth > 400 {
		p.abortf("call depth exceeded (recursion budget)")
	}
	p.fnStack = append(p.fnStack, fn)
	defer func() { p.depth--; p.fnStack = p.fnStack[:len(p.fnStack)-1] }()
	if p.res.Funcs != nil {
		p.res.Funcs[fn.String()] = true
	}
	if p.in.Trace {
		fmt.Fprintf(os.Stderr, "%*senter %s\n", p.depth, "", fn)
	}
	fr := &frame{p: p, caller: caller, fn: fn}
	fr.env = make(map[ssa.Value]Value)
	fr.block = fn.Blocks[0]
	fr.locals = make([]Value, len(fn.Locals))
	for i, l := range fn.Locals {
		fr.locals[i] = zero(deref(l.Type()))
		fr.env[l] = &fr.locals[i]
	}
	for i, prm := range fn.Params {
		fr.env[prm] = args[i]
	}
	for i, fv := range fn.FreeVars {
		fr.env[fv] = env[i]
	}
	for fr.block != nil {
		p.runFrame(fr)
	}
	return fr.result
}

func (p *Path) runFrame(fr *frame) {
	defer func() {
		if fr.block == nil {
			return // normal return
		}
		r := recover()
		switch r.(type) {
		case abort, stopPath:
			panic(r)
		case targetPanic:
		default:
			// interpreter bug or unsupported construct: make it an abort with context
			panic(abort{fmt.Sprintf("engine error in %s: %v", fr.fn, r)})
		}
		fr.panicking = true
		fr.panicVal = r
		fr.runDefers() // re-panics if still panicking
		fr.block = fr.fn.Recover
	}()

	for {
		nonPhis := p.executePhis(fr)
		for _, instr := range nonPhis {
			if p.in.Trace {
				if v, ok := instr.(ssa.Value); ok {
					fmt.Fprintf(os.Stderr, "%*s  %s = %s\n", p.depth, "", v.Name(), instr)
				} else {
					fmt.Fprintf(os.Stderr, "%*s  %s\n", p.depth, "", instr)
				}
			}
			var k continuation
			if p.initPhase && fr.caller == nil {
				k = p.visitInstrTolerant(fr, instr)
			} else {
				k = p.visitInstr(fr, instr)
			}
			if k == kReturn {
				return
			}
		}
	}
}

func (p *Path) executePhis(fr *frame) []ssa.Instruction {
	firstNonPhi := -1
	for i, instr := range fr.block.Instrs {
		if _, ok := instr.(*ssa.Phi); !ok {
			firstNonPhi = i
			break
		}
	}
	nonPhis := fr.block.Instrs[firstNonPhi:]
	if firstNonPhi > 0 {
		phis := fr.block.Instrs[:firstNonPhi]
		predIndex := slices.Index(fr.block.Preds, fr.prevBlock)
		fr.phitemps = fr.phitemps[:0]
		for _, phi := range phis {
			phi := phi.(*ssa.Phi)
			fr.phitemps = append(fr.phitemps, fr.get(phi.Edges[predIndex]))
		}
		for i, phi := range phis {
			fr.env[phi.(*ssa.Phi)] = fr.phitemps[i]
		}
	}
	return nonPhis
}

// panicMessage renders the argument of panic() for reports.
func (p *Path) panicMessage(fr *frame, v Value) string {
	if it, ok := v.(Iface); ok {
		if s, ok := it.V.(Str); ok {
			return s.String()
		}
		if it.T != nil {
			// error or Stringer
			for _, mname := range []string{"Error", "String"} {
				if m := p.method(it.T, mname); m != nil {
					func() {
						defer func() { recover() }()
						if s, ok := p.callSSA(fr, token.NoPos, m, []Value{it.V}, nil).(Str); ok {
							v = s
						}
					}()
					if s, ok := v.(Str); ok {
						return s.String()
					}
				}
			}
		}
		return debugString(it.V)
	}
	return debugString(v)
}

// poison marks a package-level initialiser the engine could not evaluate.
// Any later use of it crashes the instruction that touches it, which is
// reported as an abort (inconclusive), never as a verdict.
type poison struct{ why string }

// visitInstrTolerant executes one instruction of a package init function;
// a failing initialiser poisons its result instead of failing the package.
func (p *Path) visitInstrTolerant(fr *frame, instr ssa.Instruction) (k continuation) {
	switch instr.(type) {
	case *ssa.If, *ssa.Jump, *ssa.Return, *ssa.RunDefers:
		return p.visitInstr(fr, instr)
	}
	defer func() {
		if r := recover(); r != nil {
			why := fmt.Sprint(r)
			if a, ok := r.(abort); ok {
				why = a.reason
			}
			if tp, ok := r.(targetPanic); ok {
				why = "panic: " + tp.msg
			}
			if v, ok := instr.(ssa.Value); ok {
				fr.env[v] = poison{why}
			}
			if st, ok := instr.(*ssa.Store); ok {
				if addr, ok := fr.env[st.Addr].(*Value); ok && addr != nil {
					*addr = poison{why}
				} else if g, ok := st.Addr.(*ssa.Global); ok {
					*p.in.globals[g] = poison{why}
				}
			}
			k = kNext
		}
	}()
	return p.visitInstr(fr, instr)
}
