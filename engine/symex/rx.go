package symex

import (
	"regexp"
	"regexp/syntax"
	"unicode"

	"verif/engine/smt"
)

// RxVal is the interpreter's value for a *regexp.Regexp: the real compiled
// regexp (used for concrete subjects) plus its syntax.Prog, which is
// simulated symbolically (Pike VM over boolean terms) for symbolic subjects.
type RxVal struct {
	re   *regexp.Regexp
	prog *syntax.Prog
	src  string
}

func compileRx(pattern string) (*RxVal, error) {
	re, err := regexp.Compile(pattern)
	if err != nil {
		return nil, err
	}
	rs, err := syntax.Parse(pattern, syntax.Perl)
	if err != nil {
		return nil, err
	}
	prog, err := syntax.Compile(rs.Simplify())
	if err != nil {
		return nil, err
	}
	return &RxVal{re: re, prog: prog, src: pattern}, nil
}

func isWordByte(b *smt.Term) *smt.Term {
	in := func(lo, hi byte) *smt.Term {
		return smt.And(smt.ULe(smt.ConstBV(8, uint64(lo)), b), smt.ULe(b, smt.ConstBV(8, uint64(hi))))
	}
	return smt.OrN(in('a', 'z'), in('A', 'Z'), in('0', '9'), smt.Eq(b, smt.ConstBV(8, '_')))
}

// rxMatch simulates prog on the subject bytes. anchoredStart: threads start
// only at position 0 (otherwise at every position, as MatchString does);
// needEnd: a match counts only if it ends at len(subject).
func (p *Path) rxMatch(rx *RxVal, subj []*smt.Term, anchoredStart, needEnd bool) *smt.Term {
	prog := rx.prog
	n := len(subj)
	for _, b := range subj {
		p.mustAssumeASCII(b)
	}
	emptyCond := func(i int, op syntax.EmptyOp) *smt.Term {
		c := smt.True
		if op&syntax.EmptyBeginText != 0 {
			c = smt.And(c, smt.ConstBool(i == 0))
		}
		if op&syntax.EmptyEndText != 0 {
			c = smt.And(c, smt.ConstBool(i == n))
		}
		if op&syntax.EmptyBeginLine != 0 {
			if i != 0 {
				c = smt.And(c, smt.Eq(subj[i-1], smt.ConstBV(8, '\n')))
			}
		}
		if op&syntax.EmptyEndLine != 0 {
			if i != n {
				c = smt.And(c, smt.Eq(subj[i], smt.ConstBV(8, '\n')))
			}
		}
		if op&(syntax.EmptyWordBoundary|syntax.EmptyNoWordBoundary) != 0 {
			before, after := smt.False, smt.False
			if i > 0 {
				before = isWordByte(subj[i-1])
			}
			if i < n {
				after = isWordByte(subj[i])
			}
			bnd := smt.Not(smt.Eq(before, after))
			if op&syntax.EmptyWordBoundary != 0 {
				c = smt.And(c, bnd)
			}
			if op&syntax.EmptyNoWordBoundary != 0 {
				c = smt.And(c, smt.Not(bnd))
			}
		}
		return c
	}
	matchByte := func(inst *syntax.Inst, b *smt.Term) *smt.Term {
		switch inst.Op {
		case syntax.InstRuneAny:
			return smt.True
		case syntax.InstRuneAnyNotNL:
			return smt.Not(smt.Eq(b, smt.ConstBV(8, '\n')))
		}
		// InstRune / InstRune1: ranges in inst.Rune (pairs), or a single rune
		runes := inst.Rune
		fold := syntax.Flags(inst.Arg)&syntax.FoldCase != 0
		res := smt.False
		addRange := func(lo, hi rune) {
			if lo > 0x7f {
				return
			}
			if hi > 0x7f {
				hi = 0x7f
			}
			if lo == hi {
				res = smt.Or(res, smt.Eq(b, smt.ConstBV(8, uint64(lo))))
			} else {
				res = smt.Or(res, smt.And(smt.ULe(smt.ConstBV(8, uint64(lo)), b), smt.ULe(b, smt.ConstBV(8, uint64(hi)))))
			}
		}
		if len(runes) == 1 {
			r := runes[0]
			addRange(r, r)
			if fold {
				for f := unicode.SimpleFold(r); f != r; f = unicode.SimpleFold(f) {
					addRange(f, f)
				}
			}
			return res
		}
		for i := 0; i+1 < len(runes); i += 2 {
			addRange(runes[i], runes[i+1])
		}
		return res
	}

	matched := smt.False
	cur := make([]*smt.Term, len(prog.Inst))
	clear := func(v []*smt.Term) {
		for i := range v {
			v[i] = smt.False
		}
	}
	clear(cur)
	var add func(v []*smt.Term, i int, pc int, cond *smt.Term, stack map[int]bool)
	add = func(v []*smt.Term, i int, pc int, cond *smt.Term, stack map[int]bool) {
		if cond.IsFalse() || stack[pc] {
			return
		}
		inst := &prog.Inst[pc]
		switch inst.Op {
		case syntax.InstFail:
			return
		case syntax.InstAlt, syntax.InstAltMatch:
			stack[pc] = true
			add(v, i, int(inst.Out), cond, stack)
			add(v, i, int(inst.Arg), cond, stack)
			delete(stack, pc)
		case syntax.InstNop, syntax.InstCapture:
			stack[pc] = true
			add(v, i, int(inst.Out), cond, stack)
			delete(stack, pc)
		case syntax.InstEmptyWidth:
			stack[pc] = true
			add(v, i, int(inst.Out), smt.And(cond, emptyCond(i, syntax.EmptyOp(inst.Arg))), stack)
			delete(stack, pc)
		case syntax.InstMatch:
			if !needEnd || i == n {
				matched = smt.Or(matched, cond)
			}
		default:
			v[pc] = smt.Or(v[pc], cond)
		}
	}
	for i := 0; i <= n; i++ {
		if i == 0 || !anchoredStart {
			add(cur, i, prog.Start, smt.True, map[int]bool{})
		}
		if i == n {
			break
		}
		next := make([]*smt.Term, len(prog.Inst))
		clear(next)
		for pc := range prog.Inst {
			if cur[pc].IsFalse() {
				continue
			}
			inst := &prog.Inst[pc]
			switch inst.Op {
			case syntax.InstRune, syntax.InstRune1, syntax.InstRuneAny, syntax.InstRuneAnyNotNL:
				add(next, i+1, int(inst.Out), smt.And(cur[pc], matchByte(inst, subj[i])), map[int]bool{})
			}
		}
		cur = next
	}
	return matched
}
