package git

// H-prefix / H-fold (C06): prefix matching at component boundaries and the
// include/exclude fold.

// VPH_prefix: PrefixFilter(p).Filter(r) for free p (0..pmax bytes) and r
// (0..rmax bytes) equals the specification.
func VPH_prefix() {
	pl := vp_Choice("plen", vp_Param("pmax")+1)
	rl := vp_Choice("rlen", vp_Param("rmax")+1)
	p := vp_Str("p", pl)
	r := vp_Str("r", rl)
	got := PrefixFilter(p).Filter(r)

	// spec: r == p, or r starts with p and (p ends in '/' or r[len(p)] == '/'); "" matches all
	want := false
	if pl == 0 {
		want = true
	} else if rl >= pl {
		starts := true
		for i := 0; i < pl; i++ {
			starts = vp_And(starts, r[i] == p[i])
		}
		boundary := p[pl-1] == '/'
		if rl == pl {
			boundary = true
		} else {
			boundary = vp_Or(boundary, r[pl] == '/')
		}
		want = vp_And(starts, boundary)
	}
	vp_Assert(got == want, "prefix matches only at a component boundary")
	vp_Reach("end")
}

type vpLeaf struct{ m bool }

func (l vpLeaf) Filter(string) bool { return l.m }

// VPH_combineStep: one Combine step from an arbitrary filter state.
func VPH_combineStep() {
	var cur ReferenceFilter
	v := vp_Bool("v")
	started := vp_Choice("started", 2) == 1
	if started {
		cur = vpLeaf{v}
	}
	m, inc := vp_Bool("m"), vp_Choice("include", 2) == 1
	var c Combiner = Exclude
	if inc {
		c = Include
	}
	got := c.Combine(cur, vpLeaf{m}).Filter("refs/x")
	// last matching rule wins; if none matches: opposite of the first rule's polarity
	prev := v
	if !started {
		prev = !inc
	}
	want := vp_IteBool(m, inc, prev)
	vp_Assert(got == want, "Combine = last-match step")
	// Inverted() swaps the polarity
	got2 := c.Inverted().Combine(cur, vpLeaf{m}).Filter("refs/x")
	prev2 := v
	if !started {
		prev2 = inc
	}
	vp_Assert(got2 == vp_IteBool(m, !inc, prev2), "Inverted() = opposite polarity")
	vp_Reach("end")
}

// VPH_combineFold: k options with free polarities and free match bits, folded
// left to right as the option parser does; result = polarity of the last
// matching option, else the opposite of the first option's polarity.
func VPH_combineFold() {
	k := 1 + vp_Choice("k", vp_Param("kmax"))
	var cur ReferenceFilter
	want := false
	for i := 0; i < k; i++ {
		inc := vp_Choice("include", 2) == 1
		m := vp_Bool("m")
		var c Combiner = Exclude
		if inc {
			c = Include
		}
		cur = c.Combine(cur, vpLeaf{m})
		if i == 0 {
			want = !inc
		}
		want = vp_IteBool(m, inc, want)
	}
	vp_Assert(cur.Filter("refs/any") == want, "fold = last matching option wins")
	vp_Reach("end")
}

func VPH_allNone() {
	r := vp_Str("r", 3)
	vp_Assert(AllReferencesFilter.Filter(r), "AllReferencesFilter accepts everything")
	vp_Assert(!NoReferencesFilter.Filter(r), "NoReferencesFilter rejects everything")
	vp_Reach("end")
}
