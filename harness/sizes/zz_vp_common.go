package sizes

import (
	"github.com/github/git-sizer/counts"
	"github.com/github/git-sizer/git"
)

// Helpers shared by the harness files of this package. They touch only
// exported API and struct fields, so that a harness file which no longer
// compiles against an edited tree can be dropped without breaking the others.

const vpCap32 = uint64(1<<32 - 1)
const vpCap64 = ^uint64(0)

func vpMin(a, b uint64) uint64 { return vp_IteU64(a < b, a, b) }
func vpMax(a, b uint64) uint64 { return vp_IteU64(a > b, a, b) }

// vpSat64 returns min(a+b, 2^64-1).
func vpSat64(a, b uint64) uint64 {
	s := a + b
	return vp_IteU64(s < a, vpCap64, s)
}

func vpFreeTreeSize(p string) TreeSize {
	return TreeSize{
		MaxPathDepth:           counts.Count32(vp_U32(p + ".depth")),
		MaxPathLength:          counts.Count32(vp_U32(p + ".plen")),
		ExpandedTreeCount:      counts.Count32(vp_U32(p + ".trees")),
		ExpandedBlobCount:      counts.Count32(vp_U32(p + ".blobs")),
		ExpandedBlobSize:       counts.Count64(vp_U64(p + ".bytes")),
		ExpandedLinkCount:      counts.Count32(vp_U32(p + ".links")),
		ExpandedSubmoduleCount: counts.Count32(vp_U32(p + ".subs")),
	}
}

type vpHS struct {
	s *HistorySize
}

// vpFreeHistory gives every numeric field of the aggregate an arbitrary value.
func vpFreeHistory(s *HistorySize) {
	s.UniqueCommitCount = counts.Count32(vp_U32("h.commits"))
	s.UniqueCommitSize = counts.Count64(vp_U64("h.commitbytes"))
	s.MaxCommitSize = counts.Count32(vp_U32("h.maxcommit"))
	s.MaxHistoryDepth = counts.Count32(vp_U32("h.depth"))
	s.MaxParentCount = counts.Count32(vp_U32("h.parents"))
	s.UniqueTreeCount = counts.Count32(vp_U32("h.trees"))
	s.UniqueTreeSize = counts.Count64(vp_U64("h.treebytes"))
	s.UniqueTreeEntries = counts.Count64(vp_U64("h.entries"))
	s.MaxTreeEntries = counts.Count32(vp_U32("h.maxentries"))
	s.UniqueBlobCount = counts.Count32(vp_U32("h.blobs"))
	s.UniqueBlobSize = counts.Count64(vp_U64("h.blobbytes"))
	s.MaxBlobSize = counts.Count32(vp_U32("h.maxblob"))
	s.UniqueTagCount = counts.Count32(vp_U32("h.tags"))
	s.MaxTagDepth = counts.Count32(vp_U32("h.tagdepth"))
	s.ReferenceCount = counts.Count32(vp_U32("h.refs"))
	s.MaxPathDepth = counts.Count32(vp_U32("h.pdepth"))
	s.MaxPathLength = counts.Count32(vp_U32("h.plen"))
	s.MaxExpandedTreeCount = counts.Count32(vp_U32("h.xtrees"))
	s.MaxExpandedBlobCount = counts.Count32(vp_U32("h.xblobs"))
	s.MaxExpandedBlobSize = counts.Count64(vp_U64("h.xbytes"))
	s.MaxExpandedLinkCount = counts.Count32(vp_U32("h.xlinks"))
	s.MaxExpandedSubmoduleCount = counts.Count32(vp_U32("h.xsubs"))
}

type vpNums [22]uint64

func vpNumbers(s *HistorySize) vpNums {
	return vpNums{
		uint64(s.UniqueCommitCount), uint64(s.UniqueCommitSize), uint64(s.MaxCommitSize), uint64(s.MaxHistoryDepth),
		uint64(s.MaxParentCount), uint64(s.UniqueTreeCount), uint64(s.UniqueTreeSize), uint64(s.UniqueTreeEntries),
		uint64(s.MaxTreeEntries), uint64(s.UniqueBlobCount), uint64(s.UniqueBlobSize), uint64(s.MaxBlobSize),
		uint64(s.UniqueTagCount), uint64(s.MaxTagDepth), uint64(s.ReferenceCount), uint64(s.MaxPathDepth),
		uint64(s.MaxPathLength), uint64(s.MaxExpandedTreeCount), uint64(s.MaxExpandedBlobCount), uint64(s.MaxExpandedBlobSize),
		uint64(s.MaxExpandedLinkCount), uint64(s.MaxExpandedSubmoduleCount),
	}
}

const (
	vpiCommits = iota
	vpiCommitBytes
	vpiMaxCommit
	vpiDepth
	vpiParents
	vpiTrees
	vpiTreeBytes
	vpiEntries
	vpiMaxEntries
	vpiBlobs
	vpiBlobBytes
	vpiMaxBlob
	vpiTags
	vpiTagDepth
	vpiRefs
	vpiPDepth
	vpiPLen
	vpiXTrees
	vpiXBlobs
	vpiXBytes
	vpiXLinks
	vpiXSubs
)

var vpFieldNames = [22]string{"commits", "commitbytes", "maxcommit", "depth", "parents", "trees", "treebytes", "entries",
	"maxentries", "blobs", "blobbytes", "maxblob", "tags", "tagdepth", "refs", "pdepth", "plen", "xtrees", "xblobs", "xbytes", "xlinks", "xsubs"}

// vpExpect asserts got == want for every field.
func vpExpect(got, want vpNums, what string) {
	for i := 0; i < len(got); i++ {
		vp_Assert(got[i] == want[i], what+": "+vpFieldNames[i])
	}
}

func vpInc32(v uint64) uint64 { return vpMin(v+1, vpCap32) }

func vpMkOID(kind byte, i int) git.OID {
	var b [20]byte
	b[0] = kind
	b[1] = byte(i + 1)
	for j := 2; j < 20; j++ {
		b[j] = byte(j) ^ kind
	}
	o, err := git.OIDFromBytes(b[:])
	if err != nil {
		panic("oid")
	}
	return o
}

func vpPerm(n int) []int {
	// a free permutation of 0..n-1 by successive choices
	rest := make([]int, n)
	for i := range rest {
		rest[i] = i
	}
	var out []int
	for len(rest) > 0 {
		k := vp_Choice("order", len(rest))
		out = append(out, rest[k])
		rest = append(rest[:k:k], rest[k+1:]...)
	}
	return out
}

// (names of different byte lengths; some hold multi-byte UTF-8, one a backslash: lengths are byte
// lengths of the raw names, not character counts and not lengths of an escaped rendering)
var vpEntryNames = [4]string{"\u00e9", "b\\b", "c\u00e9c", "d\u65e5dd"}

// VP_MkRefRoot builds a reference root for harnesses of other packages (the
// fields of RefRoot are unexported).
func VP_MkRefRoot(refname string, oid git.OID, walk bool) RefRoot {
	return RefRoot{ref: git.Reference{Refname: refname, ObjectType: "commit", OID: oid}, walk: walk, groups: []RefGroupSymbol{""}}
}
