package sizes

import (
	"context"
	"strings"

	"github.com/github/git-sizer/counts"
	"github.com/github/git-sizer/git"
	"github.com/github/git-sizer/meter"
)

// H-pathchain (C08): with --names=full every description printed beside an
// object id must be a git revision expression that resolves to that object.
// git's own grammar is modelled for the forms git-sizer emits:
//   <name> | <name>^{type} | <rev>:<path>      (split at the FIRST colon)
// over a scripted repository whose names (references, ROOT arguments) and tree
// entries are known to the harness.

type vpRepoModel struct {
	kind    map[git.OID]string
	entries map[git.OID]map[string]git.OID // tree -> name -> oid
	treeOf  map[git.OID]git.OID            // commit -> tree
	target  map[git.OID]git.OID            // tag -> referent
	names   map[string]git.OID             // what `git rev-parse <name>` gives
}

func (m *vpRepoModel) peel(o git.OID, typ string) (git.OID, bool) {
	for i := 0; i < 8; i++ {
		if m.kind[o] == typ {
			return o, true
		}
		switch m.kind[o] {
		case "tag":
			o = m.target[o]
		case "commit":
			o = m.treeOf[o]
		default:
			return o, false
		}
	}
	return o, false
}

// resolve mimics git rev-parse for the emitted forms.
func (m *vpRepoModel) resolve(expr string) (git.OID, bool) {
	rev, path, hasPath := expr, "", false
	if i := strings.IndexByte(expr, ':'); i >= 0 {
		rev, path, hasPath = expr[:i], expr[i+1:], true
	}
	base, peels := rev, []string{}
	for strings.HasSuffix(base, "}") {
		i := strings.LastIndex(base, "^{")
		if i < 0 {
			return git.OID{}, false
		}
		peels = append([]string{base[i+2 : len(base)-1]}, peels...)
		base = base[:i]
	}
	o, ok := m.names[base]
	if !ok {
		// a full hex object id is a valid name too
		h, err := git.NewOID(base)
		if err != nil || m.kind[h] == "" {
			return git.OID{}, false
		}
		o = h
	}
	for _, t := range peels {
		if o, ok = m.peel(o, t); !ok {
			return git.OID{}, false
		}
	}
	if !hasPath {
		return o, true
	}
	if o, ok = m.peel(o, "tree"); !ok {
		return git.OID{}, false
	}
	if path == "" {
		return o, true
	}
	for _, comp := range strings.Split(path, "/") {
		next, ok := m.entries[o][comp]
		if !ok {
			return git.OID{}, false
		}
		o = next
	}
	return o, true
}

func VPH_pathChain() {
	m := &vpRepoModel{kind: map[git.OID]string{}, entries: map[git.OID]map[string]git.OID{}, treeOf: map[git.OID]git.OID{}, target: map[git.OID]git.OID{}, names: map[string]git.OID{}}
	b0, b1 := vpMkOID('b', 0), vpMkOID('b', 1)
	t0, t1 := vpMkOID('t', 0), vpMkOID('t', 1)
	c0, g0 := vpMkOID('c', 0), vpMkOID('g', 0)
	g1 := vpMkOID('g', 1) // an annotated tag of the tree t0 (like v2.6.11-tree in linux.git)
	m.kind[b0], m.kind[b1], m.kind[t0], m.kind[t1], m.kind[c0], m.kind[g0] = "blob", "blob", "tree", "tree", "commit", "tag"
	m.kind[g1] = "tag"
	// directory names may contain or end in ':' (git allows any byte but NUL and '/')
	dir := []string{"d", "notes:", "x:y"}[vp_Choice("dirname", 3)]
	m.entries[t1] = map[string]git.OID{"f": b1}
	m.entries[t0] = map[string]git.OID{"a": b0, dir: t1}
	m.treeOf[c0] = t0
	m.target[g0] = c0
	m.target[g1] = t0
	m.names = map[string]git.OID{"refs/heads/m": c0, "HEAD": c0, "refs/tags/v": g0, "refs/tags/t": t0, "refs/tags/s": t1, "refs/tags/b": b1, "refs/tags/tt": g1}
	subRoot := "HEAD:" + dir

	mkTree := func(ents [][2]interface{}) []byte {
		var d []byte
		for _, e := range ents {
			name, oid := e[0].(string), e[1].(git.OID)
			mode := "100644"
			if m.kind[oid] == "tree" {
				mode = "40000"
			}
			d = append(d, mode+" "+name...)
			d = append(d, 0)
			d = append(d, oid.Bytes()...)
		}
		return d
	}
	treeData := map[git.OID][]byte{
		t1: mkTree([][2]interface{}{{"f", b1}}),
		t0: mkTree([][2]interface{}{{"a", b0}, {dir, t1}}),
	}

	type root struct {
		name  string
		oid   git.OID
		isRef bool
	}
	roots := []root{
		{"refs/heads/m", c0, true}, {"refs/tags/v", g0, true}, {"refs/tags/t", t0, true}, {"HEAD^{tree}", t0, false},
		{subRoot, t1, false}, {"refs/tags/b", b1, true}, {"refs/tags/s", t1, true}, {"refs/tags/tt", g1, true},
	}
	r := roots[vp_Choice("root", len(roots))]
	// optionally a second root (references are processed before ROOT arguments, in this order)
	var r2 *root
	if k := vp_Choice("second-root", len(roots)+1); k < len(roots) && roots[k].name != r.name {
		r2 = &roots[k]
	}

	// reachable set from the root
	need := map[git.OID]bool{}
	var walk func(o git.OID)
	walk = func(o git.OID) {
		if need[o] {
			return
		}
		need[o] = true
		switch m.kind[o] {
		case "tag":
			walk(m.target[o])
		case "commit":
			walk(m.treeOf[o])
		case "tree":
			for _, c := range m.entries[o] {
				walk(c)
			}
		}
	}
	walk(r.oid)
	if r2 != nil {
		walk(r2.oid)
	}

	g := NewGraph(NameStyleFull)
	s0, s1 := vp_U32("s0"), vp_U32("s1")
	if need[b0] {
		g.RegisterBlob(b0, counts.Count32(s0))
	}
	if need[b1] {
		g.RegisterBlob(b1, counts.Count32(s1))
	}
	// rev-list --objects lists a tree before the subtrees it introduces
	treeOrder := []git.OID{t0, t1}
	for _, t := range treeOrder {
		if need[t] {
			pt, _ := git.ParseTree(t, treeData[t])
			if err := g.RegisterTree(t, pt); err != nil {
				vp_Fail("RegisterTree")
				return
			}
		}
	}
	if need[c0] {
		g.RegisterCommit(c0, &git.Commit{Size: 200, Tree: t0})
		g.pathResolver.RecordCommit(c0, t0)
	}
	if need[g0] {
		g.RegisterTag(g0, &git.Tag{Size: 100, Referent: c0, ReferentType: "commit"})
	}
	if need[g1] {
		g.RegisterTag(g1, &git.Tag{Size: 100, Referent: t0, ReferentType: "tree"})
	}
	if r.isRef {
		g.RegisterReference(git.Reference{Refname: r.name, OID: r.oid}, nil)
	}
	g.pathResolver.RecordName(r.name, r.oid)
	if r2 != nil {
		if r2.isRef {
			g.RegisterReference(git.Reference{Refname: r2.name, OID: r2.oid}, nil)
		}
		g.pathResolver.RecordName(r2.name, r2.oid)
	}
	hs := g.HistorySize()

	// The table, JSON v1 and JSON v2 render the descriptions in different orders
	// (and some of them twice): what is printed for an object must not depend on
	// which other descriptions were rendered before. First pass: ancestors first.
	cited := []*Path{hs.MaxCommitSizeCommit, hs.MaxParentCountCommit, hs.MaxTagDepthTag, hs.MaxTreeEntriesTree, hs.MaxPathDepthTree,
		hs.MaxPathLengthTree, hs.MaxExpandedTreeCountTree, hs.MaxExpandedBlobCountTree, hs.MaxExpandedBlobSizeTree, hs.MaxBlobSizeBlob}
	var firstPass []string
	for _, p := range cited {
		if p == nil {
			firstPass = append(firstPass, "")
		} else {
			firstPass = append(firstPass, p.Path())
		}
	}
	defer func() {
		for i := len(cited) - 1; i >= 0; i-- {
			if cited[i] != nil {
				vp_Assert(cited[i].Path() == firstPass[i], "the description of an object does not depend on what was rendered before it (table, JSON v1 and v2 agree)")
			}
		}
	}()

	check := func(what string, p *Path, kind string) {
		if p == nil {
			return
		}
		vp_Assert(need[p.OID] && m.kind[p.OID] == kind, "the cited object is reachable and of the right kind: "+what)
		expr := p.Path()
		if expr == "" {
			return // only the object id is printed
		}
		got, ok := m.resolve(expr)
		vp_KnownRegion("KF-i", true)
		vp_Assert(ok && got == p.OID, "the printed description resolves (git rev-parse) to the cited object: "+what)
		vp_KnownRegionEnd("KF-i")
		vp_Observe("expr:"+what, expr)
	}
	check("max blob", hs.MaxBlobSizeBlob, "blob")
	check("max tree entries", hs.MaxTreeEntriesTree, "tree")
	check("max path depth", hs.MaxPathDepthTree, "tree")
	check("max path length", hs.MaxPathLengthTree, "tree")
	check("max expanded trees", hs.MaxExpandedTreeCountTree, "tree")
	check("max expanded blobs", hs.MaxExpandedBlobCountTree, "tree")
	check("max expanded bytes", hs.MaxExpandedBlobSizeTree, "tree")
	check("max commit size", hs.MaxCommitSizeCommit, "commit")
	check("max parents", hs.MaxParentCountCommit, "commit")
	check("max tag depth", hs.MaxTagDepthTag, "tag")
	vp_Reach("end")
}

// VPH_scanPaths (C08): the same question as VPH_pathChain, but through the
// real ScanRepositoryUsingGraph: whatever the scan loop itself tells the path
// resolver (commit trees, names of roots, and anything a later version may add,
// e.g. tags) the descriptions of the cited objects must resolve. The scripted
// repository has two blobs in a tree, 1..2 commits and an annotated tag of the
// newest commit; the root is a reference to the tag, to the commit, or both.
func VPH_scanPaths() {
	sc := &vpScan{}
	ncommits := 1 + vp_Choice("commits", 4)
	// commits 2..n have one parent and equal sizes (ties); optionally the newest is bigger
	sc.bigTip = vp_Choice("big-tip", 2) == 1
	vpScript(sc, ncommits, true, 5, 9)
	var tagOID, tipOID, treeOID git.OID
	m := &vpRepoModel{kind: map[git.OID]string{}, entries: map[git.OID]map[string]git.OID{}, treeOf: map[git.OID]git.OID{}, target: map[git.OID]git.OID{}, names: map[string]git.OID{}}
	for _, o := range sc.listing {
		m.kind[o.oid] = o.typ
		switch o.typ {
		case "tag":
			tagOID = o.oid
		case "tree":
			treeOID = o.oid
		case "commit":
			if tipOID == (git.OID{}) {
				tipOID = o.oid // commits are listed newest first
			}
		}
	}
	m.entries[treeOID] = map[string]git.OID{vpEntryNames[0]: vpMkOID('b', 0), vpEntryNames[1]: vpMkOID('b', 1)}
	for _, o := range sc.listing {
		if o.typ == "commit" {
			m.treeOf[o.oid] = treeOID
		}
	}
	m.target[tagOID] = tipOID
	var roots []Root
	which := vp_Choice("roots", 3) // 0: the tag only, 1: the branch only, 2: both (for-each-ref order: heads before tags)
	if which != 0 {
		roots = append(roots, RefRoot{ref: git.Reference{Refname: "refs/heads/m", OID: tipOID}, walk: true, groups: []RefGroupSymbol{"", "branches"}})
		m.names["refs/heads/m"] = tipOID
	}
	if which != 1 {
		roots = append(roots, RefRoot{ref: git.Reference{Refname: "refs/tags/v1.0", OID: tagOID}, walk: true, groups: []RefGroupSymbol{"", "tags"}})
		m.names["refs/tags/v1.0"] = tagOID
	}
	if which == 1 {
		// the tag is not reachable from the branch: it is not listed
		var l []*vpObj
		for _, o := range sc.listing {
			if o.typ != "tag" {
				l = append(l, o)
			}
		}
		sc.listing = l
	}
	vpInstallScanStubs(sc)
	vp_LazyGoroutines(vp_Choice("lazy-goroutines", 2) == 1)
	var hs HistorySize
	var err error
	panicked := vp_Catch(func() {
		hs, err = ScanRepositoryUsingGraph(context.Background(), &git.Repository{}, roots, NameStyleFull, meter.NoProgressMeter)
	})
	vp_Assert(!panicked && err == nil, "a fault-free scan succeeds")
	if panicked || err != nil {
		return
	}
	check := func(what string, p *Path, kind string) {
		if p == nil {
			return
		}
		vp_Assert(m.kind[p.OID] == kind, "the cited object is of the right kind: "+what)
		expr := p.Path()
		if expr == "" {
			return // only the object id is printed
		}
		got, ok := m.resolve(expr)
		vp_Assert(ok && got == p.OID, "the printed description resolves (git rev-parse) to the cited object: "+what)
	}
	check("max blob", hs.MaxBlobSizeBlob, "blob")
	check("max tree entries", hs.MaxTreeEntriesTree, "tree")
	check("max path depth", hs.MaxPathDepthTree, "tree")
	check("max path length", hs.MaxPathLengthTree, "tree")
	check("max expanded trees", hs.MaxExpandedTreeCountTree, "tree")
	check("max expanded blobs", hs.MaxExpandedBlobCountTree, "tree")
	check("max expanded bytes", hs.MaxExpandedBlobSizeTree, "tree")
	check("max commit size", hs.MaxCommitSizeCommit, "commit")
	check("max parents", hs.MaxParentCountCommit, "commit")
	check("max tag depth", hs.MaxTagDepthTag, "tag")
	vp_Assert(hs.MaxBlobSizeBlob != nil && hs.MaxTreeEntriesTree != nil && hs.MaxCommitSizeCommit != nil, "the maxima are cited")
	// the cited commits attain the reported values (ties may be resolved either way)
	if p := hs.MaxCommitSizeCommit; p != nil && sc.objs[p.OID] != nil {
		vp_Assert(uint64(len(sc.objs[p.OID].data)) == uint64(hs.MaxCommitSize), "the commit cited for the biggest commit has the reported size")
	}
	if p := hs.MaxParentCountCommit; p != nil && sc.objs[p.OID] != nil {
		np := strings.Count(string(sc.objs[p.OID].data), "\nparent ")
		vp_Assert(uint64(np) == uint64(hs.MaxParentCount), "the commit cited for the most parents has the reported number of parents")
	}
	vp_Reach("end")
}
