package sizes

import (
	"github.com/github/git-sizer/counts"
	"github.com/github/git-sizer/git"
)

// H-commit-step / H-commit-dag / H-tag-step / H-tag-forest (C03, C09, C01).

func vpEmptyTree(g *Graph) git.OID {
	oid := vpMkOID('t', 99)
	t, _ := git.ParseTree(oid, nil)
	if err := g.RegisterTree(oid, t); err != nil {
		panic("empty tree")
	}
	return oid
}

// VPH_commitStep: one RegisterCommit whose k parents have arbitrary known depths.
func VPH_commitStep() {
	g := NewGraph(NameStyleNone)
	tree := vpEmptyTree(g)
	k := vp_Choice("parents", vp_Param("maxparents")+1)
	old := vp_U32("olddepth")
	g.historySize.MaxHistoryDepth = counts.Count32(old)
	commit := &git.Commit{Size: counts.Count32(vp_U32("size")), Tree: tree}
	maxd := uint64(0)
	for i := 0; i < k; i++ {
		d := vp_U32("pdepth")
		vp_Assume(d >= 1) // every registered commit has depth >= 1
		p := vpMkOID('c', i)
		g.commitSizes[p] = CommitSize{MaxAncestorDepth: counts.Count32(d)}
		commit.Parents = append(commit.Parents, p)
		maxd = vpMax(maxd, uint64(d))
	}
	oid := vpMkOID('c', 50)
	g.RegisterCommit(oid, commit)
	want := vpMin(maxd+1, vpCap32)
	got, ok := g.commitSizes[oid]
	vp_Assert(ok, "commit recorded")
	vp_Assert(uint64(got.MaxAncestorDepth) == want, "depth = min(1+max parent depth, cap)")
	vp_Assert(uint64(g.historySize.MaxHistoryDepth) == vpMax(uint64(old), want), "history depth = running max")
	vp_Assert(uint64(g.historySize.MaxParentCount) == uint64(k), "parent count recorded")
	vp_Assert(uint64(g.historySize.UniqueCommitCount) == 1, "counted once")
	vp_Reach("end")
}

// VPH_commitDAG: M commits, every parent-set assignment over earlier commits,
// every delivery order that lists parents before children (git's contract
// for reversed --date-order, whatever the timestamps); plus one order that
// violates the contract, which must be refused loudly.
func VPH_commitDAG() {
	M := vp_Param("commits")
	parents := make([][]int, M)
	for i := 0; i < M; i++ {
		mask := vp_Choice("parentset", 1<<uint(i))
		for j := 0; j < i; j++ {
			if mask&(1<<uint(j)) != 0 {
				parents[i] = append(parents[i], j)
			}
		}
	}
	g := NewGraph(NameStyleNone)
	tree := vpEmptyTree(g)
	violate := vp_Choice("violate-contract", 2) == 1
	delivered := make([]bool, M)
	sizes := make([]uint32, M)
	for n := 0; n < M; n++ {
		var ready []int
		for i := 0; i < M; i++ {
			if delivered[i] {
				continue
			}
			ok := true
			for _, p := range parents[i] {
				if !delivered[p] {
					ok = false
				}
			}
			if ok != violate || (violate && n > 0) {
				if ok || violate {
					ready = append(ready, i)
				}
			}
		}
		if len(ready) == 0 {
			vp_Reach("no-violating-order")
			return
		}
		i := ready[vp_Choice("next", len(ready))]
		c := &git.Commit{Size: counts.Count32(10 + i), Tree: tree}
		sizes[i] = uint32(10 + i)
		for _, p := range parents[i] {
			c.Parents = append(c.Parents, vpMkOID('c', p))
		}
		missing := false
		for _, p := range parents[i] {
			if !delivered[p] {
				missing = true
			}
		}
		panicked := vp_Catch(func() { g.RegisterCommit(vpMkOID('c', i), c) })
		if missing {
			vp_Assert(panicked, "a child delivered before its parent is refused (never silently miscounted)")
			vp_Reach("contract-violation-refused")
			return
		}
		vp_Assert(!panicked, "RegisterCommit accepts any parents-first order")
		if panicked {
			return
		}
		delivered[i] = true
	}
	// oracle: longest chain
	depth := make([]uint64, M)
	best, maxpar := uint64(0), uint64(0)
	for i := 0; i < M; i++ {
		d := uint64(0)
		for _, p := range parents[i] {
			d = vpMax(d, depth[p])
		}
		depth[i] = d + 1
		best = vpMax(best, depth[i])
		maxpar = vpMax(maxpar, uint64(len(parents[i])))
	}
	hs := g.HistorySize()
	vp_Assert(uint64(hs.MaxHistoryDepth) == best, "history depth = commits on the longest parent chain")
	vp_Assert(uint64(hs.UniqueCommitCount) == uint64(M), "each commit counted once")
	vp_Assert(uint64(hs.MaxParentCount) == maxpar, "max parents")
	vp_Assert(uint64(hs.MaxCommitSize) == uint64(10+M-1), "max commit size")
	for i := 0; i < M; i++ {
		vp_Assert(uint64(g.commitSizes[vpMkOID('c', i)].MaxAncestorDepth) == depth[i], "per-commit depth")
	}
	vp_Reach("end")
}

// VPH_tagStep: one RegisterTag; referent kind free; a tag referent is known
// (arbitrary depth) or not yet known.
func VPH_tagStep() {
	g := NewGraph(NameStyleNone)
	kind := []string{"commit", "tree", "blob", "tag"}[vp_Choice("kind", 4)]
	known := vp_Choice("known", 2) == 1
	ref := vpMkOID('g', 1)
	d := vp_U32("refdepth")
	vp_Assume(d >= 1)
	if kind == "tag" && known {
		g.tagSizes[ref] = TagSize{counts.Count32(d)}
	}
	oid := vpMkOID('g', 2)
	g.RegisterTag(oid, &git.Tag{Size: 100, Referent: ref, ReferentType: git.ObjectType(kind)})
	if kind == "tag" && !known {
		_, done := g.tagSizes[oid]
		vp_Assert(!done, "a tag of an unknown tag waits")
		vp_Assert(uint64(g.historySize.UniqueTagCount) == 0, "not counted before it is final")
		// now the referent arrives (it points at a commit): both become final
		g.RegisterTag(ref, &git.Tag{Size: 50, Referent: vpMkOID('c', 1), ReferentType: "commit"})
		vp_Assert(uint64(g.tagSizes[oid].TagDepth) == 2, "depth 2 once the referent is known")
		vp_Assert(uint64(g.historySize.UniqueTagCount) == 2, "both counted once")
		vp_Assert(len(g.tagRecords) == 0, "nothing pending")
		vp_Reach("late-referent")
		return
	}
	want := uint64(1)
	if kind == "tag" {
		want = vpMin(uint64(d)+1, vpCap32)
	}
	vp_Assert(uint64(g.tagSizes[oid].TagDepth) == want, "tag depth = 1 + depth of a tag referent")
	vp_Assert(uint64(g.historySize.MaxTagDepth) == want, "max tag depth")
	vp_Assert(uint64(g.historySize.UniqueTagCount) == 1, "counted once")
	vp_Reach("end")
}

// VPH_tagForest: T tag objects, each pointing at a later tag or at a non-tag,
// delivered in every order.
func VPH_tagForest() {
	T := vp_Param("tags")
	target := make([]int, T) // -1 = non-tag
	for i := 0; i < T; i++ {
		c := vp_Choice("target", T-i) // 0 = non-tag, k = tag i+k
		if c == 0 {
			target[i] = -1
		} else {
			target[i] = i + c
		}
	}
	g := NewGraph(NameStyleNone)
	order := vpPerm(T)
	for _, i := range order {
		tag := &git.Tag{Size: counts.Count32(20 + i), Referent: vpMkOID('c', 7), ReferentType: "commit"}
		if target[i] >= 0 {
			tag.Referent, tag.ReferentType = vpMkOID('g', target[i]), "tag"
		}
		panicked := vp_Catch(func() { g.RegisterTag(vpMkOID('g', i), tag) })
		vp_Assert(!panicked, "RegisterTag accepts any order")
		if panicked {
			return
		}
	}
	var hs HistorySize
	panicked := vp_Catch(func() { hs = g.HistorySize() })
	vp_Assert(!panicked, "no tag left pending")
	if panicked {
		return
	}
	depth := make([]uint64, T)
	best := uint64(0)
	for i := T - 1; i >= 0; i-- {
		depth[i] = 1
		if target[i] >= 0 {
			depth[i] = depth[target[i]] + 1
		}
		best = vpMax(best, depth[i])
	}
	vp_Assert(uint64(hs.MaxTagDepth) == best, "max tag depth = tags on the longest tag chain")
	vp_Assert(uint64(hs.UniqueTagCount) == uint64(T), "each tag counted once")
	for i := 0; i < T; i++ {
		vp_Assert(uint64(g.tagSizes[vpMkOID('g', i)].TagDepth) == depth[i], "per-tag depth")
	}
	vp_Reach("end")
}
