package sizes

import (
	"strconv"
	"strings"

	"github.com/github/git-sizer/git"
)

// H-footnotes / H-footnote-lines / H-row (C19).

func VPH_footnotes() {
	k := 1 + vp_Choice("citations", vp_Param("kmax"))
	tl := vp_Param("textlen")
	f := NewFootnotes()
	var texts []string
	var cites []string
	family := vp_Choice("family", 3) // 0: free bytes, 1: free ASCII bytes (control characters included), 2: concrete names: not valid UTF-8, or containing fmt verbs
	ascii := family == 1
	for i := 0; i < k; i++ {
		var t string
		if family == 2 {
			t = []string{"caf\xe9", "\xff\xfe", "ok", "a\x80b", "refs/heads/50%done:report_100%s.txt"}[vp_Choice("name", 5)]
		} else {
			t = vp_Str("text", vp_Choice("len", tl+1))
		}
		if ascii {
			vp_AssumeASCII(t)
		}
		texts = append(texts, t)
		cites = append(cites, f.CreateCitation(t))
	}
	// specification: numbers 1..m in order of first occurrence; equal texts share a number; "" is never cited
	var distinct []string
	hasLF := false // some text contains LF immediately followed by '[' (KF-h)
	for i, t := range texts {
		for j := 0; j+1 < len(t); j++ {
			hasLF = vp_Or(hasLF, vp_And(t[j] == '\n', t[j+1] == '['))
		}
		if t == "" {
			vp_Assert(cites[i] == "", "an empty footnote is never cited")
			continue
		}
		idx := -1
		for j, d := range distinct {
			if d == t {
				idx = j
			}
		}
		if idx < 0 {
			distinct = append(distinct, t)
			idx = len(distinct) - 1
		}
		vp_Assert(cites[i] == "["+strconv.Itoa(idx+1)+"]", "citations are numbered 1..m in order of first occurrence; identical texts share one number")
	}
	out := f.String()
	if len(distinct) == 0 {
		vp_Assert(out == "", "no footnotes, no footnote block")
		vp_Reach("none")
		return
	}
	// every footnote is listed exactly once, in order, as "[i]  text"
	want := "\n"
	for i, d := range distinct {
		c := "[" + strconv.Itoa(i+1) + "]"
		want += c + strings.Repeat(" ", 4-len(c)) + " " + d + "\n"
	}
	vp_Assert(out == want, "the footnote block lists every cited text once, in citation order")
	// a reader must find exactly one footnote line per number
	lines := strings.Split(out, "\n")
	n := 0
	for _, l := range lines {
		if len(l) > 0 && l[0] == '[' {
			n++
		}
	}
	vp_KnownRegion("KF-h", hasLF)
	vp_Assert(n == len(distinct), "exactly one line starting with '[' per footnote")
	vp_KnownRegionEnd("KF-h")
	vp_Reach("end")
}

// VPH_row: formatRow never slices out of range, whatever the lengths of the
// name and citation and however deeply the row is indented.
func VPH_row() {
	// the root table (indent -1) never formats a row: rows live at indent >= 0
	indent := vp_Choice("indent", 41)
	nl := []int{0, 1, 20, 26, 27, 28, 29, 39}[vp_Choice("namelen", 8)]
	cl := []int{0, 3, 4}[vp_Choice("citelen", 3)]
	t := &table{indent: indent}
	name := strings.Repeat("n", nl)
	cite := strings.Repeat("c", cl)
	vp_KnownRegion("KF-e", indent >= 16)
	panicked := vp_Catch(func() { t.formatRow(name, cite, "1", "", "") })
	vp_Assert(!panicked, "formatRow does not panic for any nesting depth / name length")
	vp_KnownRegionEnd("KF-e")
	vp_Reach("end")
}

// VPH_pathJSON: names reach JSON only through encoding/json's string
// encoder (which escapes any byte sequence into valid JSON); the encoder
// itself is trusted, what is checked is that it is the one used, on the
// exact description text.
func VPH_pathJSON() {
	if vp_Native() {
		vp_Reach("end")
		return
	}
	name := vp_Str("name", 3)
	p := &Path{OID: vpMkOID('b', 1), objectType: "blob", relativePath: name}
	before := vp_JSONCalls()
	_, err := p.MarshalJSON()
	vp_Assert(err == nil, "MarshalJSON ok")
	vp_Assert(vp_JSONCalls() == before+1, "the description is encoded by encoding/json, once")
	s, ok := vp_LastJSON().(string)
	vp_Assert(ok && s == p.String(), "what is encoded is exactly the description text")
	vp_Assert(p.String() == p.OID.String()+" ("+name+")", "description = <oid> (<name>) with the exact name bytes")
	vp_Reach("end")
}

// VPH_footnoteVerbatim (C08, C19): the footnote block prints every cited
// description byte for byte - it is what the reader pastes into `git
// rev-parse` - whatever the description contains (here: fmt verbs, a trailing
// '%', backslashes, quotes).
func VPH_footnoteVerbatim() {
	menu := []string{
		"refs/heads/main:50%done/report_100%s.txt", "refs/tags/v1%d^{tree}", "HEAD:a%", "refs/heads/x:back\\slash\\n",
		"refs/heads/q:\"quoted\"", "refs/heads/main:plain.txt",
	}
	f := NewFootnotes()
	k := 1 + vp_Choice("citations", 2)
	var texts []string
	for i := 0; i < k; i++ {
		t := menu[vp_Choice("description", len(menu))]
		f.CreateCitation(t)
		dup := false
		for _, u := range texts {
			dup = dup || u == t
		}
		if !dup {
			texts = append(texts, t)
		}
	}
	want := "\n"
	for i, t := range texts {
		want += "[" + strconv.Itoa(i+1) + "]  " + t + "\n"
	}
	vp_Assert(f.String() == want, "the footnote block prints each description verbatim")
	vp_Reach("end")
}

// VPH_tableFootnotes (C19, C08): citations in the rendered table. Three metrics
// cite objects through three distinct *Path values (as the hash-style resolver
// hands out); two of them name the same object, the third one's id has a free
// byte, so whether it coincides is the solver's choice. Identical footnote
// texts share one number, numbers follow the order of first citation, every
// footnote is cited; with --names=none nothing is cited.
func VPH_tableFootnotes() {
	var hs HistorySize
	y := vpMkOID('t', 1)
	yb := y.Bytes()
	style := []NameStyle{NameStyleHash, NameStyleNone, NameStyleFull}[vp_Choice("style", 3)]
	if style == NameStyleFull {
		yb[19] = 0x77 // (concrete: the description text is inspected character by character below)
	} else {
		yb[19] = vp_U8("lastbyte") // the blob's id: equal to the tree's id or not
	}
	x, _ := git.OIDFromBytes(yb)
	hs.MaxTreeEntries, hs.MaxTreeEntriesTree = 5000, &Path{OID: y, objectType: "tree"}
	hs.MaxBlobSize, hs.MaxBlobSizeBlob = 50e6, &Path{OID: x, objectType: "blob"}
	hs.MaxPathDepth, hs.MaxPathDepthTree = 40, &Path{OID: y, objectType: "tree"}
	if style == NameStyleFull {
		// descriptions as the resolver builds them for objects named by a reference; the names hold
		// characters a terminal-minded sanitiser might touch (ZERO WIDTH NON-JOINER, IDEOGRAPHIC SPACE,
		// NO-BREAK SPACE) - the description is a revision expression and must be printed as it is (C08)
		hs.MaxTreeEntriesTree.relativePath = "refs/heads/m:di\u200cr"
		hs.MaxPathDepthTree.relativePath = "refs/heads/m:di\u200cr"
		hs.MaxBlobSizeBlob.relativePath = "refs/heads/m:di\u200cr/f\u3000x\u00a0.txt"
	}
	out := hs.TableString(nil, 1, style)
	row := func(name string) string {
		for _, l := range strings.Split(out, "\n") {
			if strings.Contains(l, name) {
				return l
			}
		}
		return ""
	}
	entries, blob, depth := row("Maximum entries"), row("Maximum size"), row("Maximum path depth")
	vp_Assert(entries != "" && blob != "" && depth != "", "the three rows are shown")
	if style == NameStyleNone {
		vp_Assert(!strings.Contains(out, "[1]"), "--names=none: nothing is cited")
		vp_Reach("none")
		return
	}
	vp_Assert(strings.Contains(entries, "[1]") && strings.Contains(depth, "[1]"), "two metrics with the same witness share footnote [1]")
	if style == NameStyleFull {
		ty, tx := hs.MaxTreeEntriesTree.String(), hs.MaxBlobSizeBlob.String()
		vp_Assert(strings.Contains(blob, "[2]"), "numbers follow the order of first citation")
		vp_Assert(strings.HasSuffix(out, "\n[1]  "+ty+"\n[2]  "+tx+"\n"), "full names: each footnote is the object's description, byte for byte")
		vp_Reach("full")
		return
	}
	if x == y {
		vp_Assert(strings.Contains(blob, "[1]"), "identical footnote texts share one number")
		vp_Assert(strings.HasSuffix(out, "\n[1]  "+y.String()+"\n") && !strings.Contains(out, "[2]"), "one footnote, cited three times")
	} else {
		vp_Assert(strings.Contains(blob, "[2]"), "numbers follow the order of first citation")
		vp_Assert(strings.HasSuffix(out, "\n[1]  "+y.String()+"\n[2]  "+x.String()+"\n") && !strings.Contains(out, "[3]"), "two footnotes, in citation order, each cited")
	}
	vp_Reach("hash")
}
