#!/bin/bash
# Runs every registered harness once in the thorough tier (each under its first claimed property) and
# prints wall time, paths, violations and inconclusives per harness. Used to choose thorough bounds
# that run clean on the unchanged tree; not a registered check. usage: ./calibrate_thorough.sh [pattern]
cd "$(dirname "$0")"
python3 - "$1" <<'EOF' > /tmp/vp_calib_list.$$
import json, sys
pat = sys.argv[1] if len(sys.argv) > 1 else ''
m = json.load(open('MANIFEST.json'))
claimed = {c['property_id'] if 'property_id' in c else c.get('id') for c in m.get('checks', m.get('properties', []))}
for h in json.load(open('harness/harness.json'))['harnesses']:
    if pat and pat not in h['name']:
        continue
    p = [x for x in h['props'] if x in claimed] or h['props']
    print(h['name'], p[0])
EOF
while read name prop; do
  s=$(date +%s)
  out=$(timeout 7200 ./check $prop --tier thorough -v --only $name 2>&1); rc=$?
  e=$(( $(date +%s) - s ))
  sum=$(echo "$out" | grep -m1 "^property=$prop" )
  inc=$(echo "$out" | grep -m2 '^INCONCLUSIVE' | cut -c1-160 | tr '\n' ';')
  echo "$name rc=$rc wall=${e}s $sum $inc"
done < /tmp/vp_calib_list.$$
rm -f /tmp/vp_calib_list.$$
