package git

import (
	"errors"
	"io/fs"
	"os"
	"os/exec"
	"syscall"
)

// H-gitcmd / H-isfull (C13): how every git command is constructed, and the
// refusal of shallow repositories.

// (GIT_CONFIG_* carry command-scope configuration, e.g. `git -c refgroup.x.include=...`: C15)
var vpEnvMenu = []string{"PATH=/usr/bin", "GIT_DIR=/elsewhere", "GIT_GRAFT_FILE=/tmp/grafts", "GIT_REPLACE_REF_BASE=refs/r", "HOME=/h",
	"GIT_CONFIG_PARAMETERS='refgroup.x.include=refs/x'", "GIT_CONFIG_COUNT=1", "GIT_CONFIG_GLOBAL=/h/cfg"}

func VPH_gitCommand() {
	if vp_Native() {
		vp_Reach("end")
		return
	}
	var env []string
	m := vp_Choice("envcount", 4)
	for i := 0; i < m; i++ {
		env = append(env, vpEnvMenu[vp_Choice("env", len(vpEnvMenu))])
	}
	vp_Stub("os.Environ", func() []string { return env })
	vp_Stub("os/exec.Command", func(name string, arg ...string) *exec.Cmd {
		return &exec.Cmd{Path: name, Args: append([]string{name}, arg...)}
	})
	k := vp_Choice("argcount", 4)
	var args []string
	for i := 0; i < k; i++ {
		args = append(args, "a"+vp_Str("arg", 2))
	}
	gitDir := "/r/" + vp_Str("gitdir", 2)
	repo := &Repository{gitDir: gitDir, gitBin: "/usr/bin/git"}
	cmd := repo.GitCommand(args...)

	// argv: the chosen git binary, global options among which --no-replace-objects, then exactly the caller's arguments
	n := len(cmd.Args)
	vp_Assert(n >= 1+len(args) && cmd.Args[0] == "/usr/bin/git" && cmd.Path == "/usr/bin/git", "the chosen git binary is run")
	if n < 1+len(args) {
		return
	}
	for i := range args {
		vp_Assert(cmd.Args[n-len(args)+i] == args[i], "the caller's arguments follow the global options, unchanged and in order")
	}
	noReplace := false
	for _, a := range cmd.Args[1 : n-len(args)] {
		if a == "--no-replace-objects" {
			noReplace = true
		}
	}
	vp_Assert(noReplace, "replacement objects are disabled for every git command (--no-replace-objects before the subcommand)")

	// environment as the child sees it: os/exec keeps the LAST entry of a duplicated variable
	effective := func(list []string, key string) (string, bool) {
		val, ok := "", false
		for _, e := range list {
			if len(e) > len(key) && e[:len(key)] == key && e[len(key)] == '=' {
				val, ok = e[len(key)+1:], true
			}
		}
		return val, ok
	}
	v, ok := effective(cmd.Env, "GIT_DIR")
	vp_Assert(ok && v == gitDir, "the child's GIT_DIR is the repository, whatever was inherited")
	v, ok = effective(cmd.Env, "GIT_GRAFT_FILE")
	vp_Assert(ok && v == os.DevNull, "grafts are disabled in the child (GIT_GRAFT_FILE=/dev/null), whatever was inherited")
	for _, key := range []string{"PATH", "HOME", "GIT_REPLACE_REF_BASE", "GIT_CONFIG_PARAMETERS", "GIT_CONFIG_COUNT", "GIT_CONFIG_GLOBAL"} {
		want, had := effective(env, key)
		got, has := effective(cmd.Env, key)
		vp_Assert(had == has && want == got, "other inherited variables reach the child unchanged: "+key)
	}
	vp_Reach("end")
}

// VPH_isFull: a model file system in which `shallow` lives in the common git
// directory; the repository is opened through its main GIT_DIR or through a
// linked worktree's GIT_DIR. git answers the two questions git-sizer could
// ask about it; any other command has no modelled answer.
func VPH_isFull() {
	if vp_Native() {
		vp_Reach("end")
		return
	}
	vp_Stub("github.com/github/git-sizer/git.findGitBin", func() (string, error) { return "/usr/bin/git", nil })
	linked := vp_Choice("linked-worktree", 2) == 1
	shallow := vp_Choice("shallow", 2) == 1
	gitFails := vp_Choice("git-fails", 2) == 1
	lstatBroken := vp_Choice("lstat-io-error", 2) == 1
	notExistKind := vp_Choice("notexist-kind", 2)
	gitDir := ".git"
	if linked {
		gitDir = ".git/worktrees/wt"
	}
	var last []string
	vp_Stub("(*github.com/github/git-sizer/git.Repository).GitCommand", func(r *Repository, args ...string) *exec.Cmd {
		last = args
		return &exec.Cmd{}
	})
	vp_Stub("(*os/exec.Cmd).Output", func(c *exec.Cmd) ([]byte, error) {
		if gitFails {
			return nil, &exec.ExitError{}
		}
		switch {
		case len(last) == 3 && last[0] == "rev-parse" && last[1] == "--git-path" && last[2] == "shallow":
			return []byte(".git/shallow\n"), nil // git resolves it in the common directory
		case len(last) == 2 && last[0] == "rev-parse" && last[1] == "--is-shallow-repository":
			if shallow {
				return []byte("true\n"), nil
			}
			return []byte("false\n"), nil
		}
		vp_Inconclusive("the shallow check issued a git command with no modelled answer")
		return nil, nil
	})
	vp_Stub("os.Lstat", func(name string) (os.FileInfo, error) {
		if lstatBroken {
			return nil, &fs.PathError{Op: "lstat", Path: name, Err: errors.New("i/o error")}
		}
		if name == ".git/shallow" && shallow {
			return nil, nil
		}
		if notExistKind == 0 {
			return nil, &fs.PathError{Op: "lstat", Path: name, Err: syscall.ENOENT}
		}
		return nil, &fs.PathError{Op: "lstat", Path: name, Err: fs.ErrNotExist}
	})
	vp_Stub("os.Stat", func(name string) (os.FileInfo, error) {
		vp_Inconclusive("os.Stat is not modelled")
		return nil, nil
	})
	repo, err := NewRepositoryFromGitDir(gitDir)
	switch {
	case gitFails && last != nil:
		vp_Assert(err != nil && repo == nil, "if git is asked and cannot answer, the run fails")
	case lstatBroken && err == nil:
		// only acceptable if the implementation did not need the file system (asked git directly)
		vp_Assert(!shallow, "a shallow clone is refused")
	case lstatBroken:
		vp_Assert(repo == nil, "an unreadable shallow marker is an error, not 'full'")
	case shallow:
		vp_Assert(err != nil && repo == nil, "a shallow clone is refused, however the repository is addressed")
		vp_Reach("shallow-refused")
	default:
		vp_Assert(err == nil && repo != nil, "a full clone is accepted")
		if repo != nil {
			vp_Assert(repo.gitDir == gitDir, "repository addressed by the given GIT_DIR")
		}
		vp_Reach("full")
	}
}

// VPH_repoFromPath (C13): however the repository is addressed, git itself is
// asked (`git -C <path> rev-parse --git-dir`) and its answer becomes GIT_DIR:
// verbatim when absolute, relative to <path> otherwise.
func VPH_repoFromPath() {
	if vp_Native() {
		vp_Reach("end")
		return
	}
	vp_Stub("github.com/github/git-sizer/git.findGitBin", func() (string, error) { return "/usr/bin/git", nil })
	path := []string{".", "sub/dir", "/abs/work", "../up"}[vp_Choice("path", 4)]
	answer := []string{".git", "/abs/work/.git", "../../.git", ".", "/srv/bare.git", ".git/worktrees/wt", "/home/me/my project/.git", "sub dir/.git"}[vp_Choice("answer", 8)]
	trailer := []string{"\n", "", "\r\n", " \n"}[vp_Choice("trailer", 4)]
	fails := vp_Choice("fails", 2) == 1
	var argv []string
	vp_Stub("os/exec.Command", func(name string, arg ...string) *exec.Cmd {
		argv = append([]string{name}, arg...)
		return &exec.Cmd{Path: name, Args: argv}
	})
	vp_Stub("(*os/exec.Cmd).Output", func(c *exec.Cmd) ([]byte, error) {
		if fails {
			return nil, &exec.ExitError{Stderr: []byte("fatal: not a git repository")}
		}
		return []byte(answer + trailer), nil
	})
	var gotDir string
	vp_Stub("github.com/github/git-sizer/git.NewRepositoryFromGitDir", func(gitDir string) (*Repository, error) {
		gotDir = gitDir
		return &Repository{gitDir: gitDir, gitBin: "/usr/bin/git"}, nil
	})
	repo, err := NewRepositoryFromPath(path)
	want := []string{"/usr/bin/git", "-C", path, "rev-parse", "--git-dir"}
	vp_Assert(len(argv) == len(want), "git -C <path> rev-parse --git-dir")
	for i := 0; i < len(want) && i < len(argv); i++ {
		vp_Assert(argv[i] == want[i], "argv element")
	}
	if fails {
		vp_Assert(err != nil && repo == nil, "an absent repository is an error")
		vp_Reach("absent")
		return
	}
	vp_Assert(err == nil && repo != nil, "repository opened")
	wantDir := answer
	if answer[0] != '/' {
		// lexical join, as filepath.Join does
		switch {
		case path == "." && answer == ".":
			wantDir = "."
		case path == ".":
			wantDir = answer
		case answer == ".":
			wantDir = path
		case path == "sub/dir" && answer == "../../.git":
			wantDir = ".git"
		case path == "/abs/work" && answer == "../../.git":
			wantDir = "/.git"
		case path == "../up" && answer == "../../.git":
			wantDir = "../../.git"
		default:
			wantDir = path + "/" + answer
		}
	}
	vp_Assert(gotDir == wantDir, "GIT_DIR is git's answer: verbatim if absolute, else relative to the given path (surrounding white space removed)")
	vp_Reach("end")
}
