package symex

import (
	"errors"
	"fmt"
	"go/token"
	"go/types"
	"math"
	"regexp"
	"strconv"
	"strings"

	"golang.org/x/tools/go/ssa"

	"verif/engine/smt"
)

func boolArg(v Value) *smt.Term { return v.(*smt.Term) }

func (p *Path) strArg(v Value, what string) string {
	s := v.(Str)
	if !s.isConcrete() {
		p.abortf("%s must be a concrete string", what)
	}
	return s.c
}

func (p *Path) intArg(v Value, what string) int64 {
	c, ok := asInt(v)
	if !ok {
		p.abortf("%s must be a concrete integer", what)
	}
	return c
}

// intrinsic dispatches engine-level implementations. ok=false means "not an intrinsic".
func (p *Path) intrinsic(caller *frame, fn *ssa.Function, name string, args []Value) (Value, bool) {
	short := fn.Name()
	if strings.HasPrefix(short, "vp_") && fn.Pkg != nil && p.in.repoPkgs[fn.Pkg] {
		return p.vpIntrinsic(caller, fn, short, args), true
	}
	switch name {
	case "(*sync.Mutex).Lock", "(*sync.RWMutex).Lock":
		st := &(*args[0].(*Value)).(Struct)[0]
		if s, ok := (*st).(Struct); ok { // RWMutex: first field is w Mutex
			st = &s[0]
		}
		if c, _ := asInt(*st); c != 0 {
			panic(targetPanic{msg: "sync.Mutex.Lock on a mutex already held by this (sequential) execution: deadlock"})
		}
		*st = smt.ConstBV(32, 1)
		return nil, true
	case "(*sync.Mutex).Unlock", "(*sync.RWMutex).Unlock":
		st := &(*args[0].(*Value)).(Struct)[0]
		if s, ok := (*st).(Struct); ok {
			st = &s[0]
		}
		if c, _ := asInt(*st); c == 0 {
			panic(targetPanic{msg: "sync: unlock of unlocked mutex"})
		}
		*st = smt.ConstBV(32, 0)
		return nil, true
	case "(*sync.Mutex).TryLock":
		st := &(*args[0].(*Value)).(Struct)[0]
		if c, _ := asInt(*st); c != 0 {
			return smt.False, true
		}
		*st = smt.ConstBV(32, 1)
		return smt.True, true
	case "strconv.FormatUint", "strconv.Itoa", "strconv.FormatInt":
		if t, ok := args[0].(*smt.Term); ok && !t.IsConst() {
			base := int64(10)
			if len(args) > 1 {
				base, _ = asInt(args[1])
			}
			if base == 10 && name == "strconv.FormatUint" {
				return Str{tok: &FmtTok{Format: "%d", Arg: t}}, true
			}
		}
	case "(*os.ProcessState).ExitCode":
		return intConst(int64(p.exitCode)), true
	case "(*os/exec.ExitError).ExitCode":
		return intConst(int64(p.exitCode)), true
	case "math.Inf":
		if sign, ok := asInt(args[0]); ok {
			if sign >= 0 {
				return smt.ConstFP(math.Inf(1)), true
			}
			return smt.ConstFP(math.Inf(-1)), true
		}
	case "math.NaN":
		return smt.ConstFP(math.NaN()), true
	case "math.IsNaN":
		if f, ok := args[0].(*smt.Term); ok && f.Sort.K == smt.SFP {
			return smt.FPIsNaN(f), true
		}
	case "math.IsInf":
		if f, ok := args[0].(*smt.Term); ok && f.Sort.K == smt.SFP {
			if sign, ok := asInt(args[1]); ok {
				pos := smt.FPEq(f, smt.ConstFP(math.Inf(1)))
				neg := smt.FPEq(f, smt.ConstFP(math.Inf(-1)))
				switch {
				case sign > 0:
					return pos, true
				case sign < 0:
					return neg, true
				}
				return smt.Or(pos, neg), true
			}
		}
	case "math.Floor", "math.Ceil", "math.Trunc", "math.Round", "math.RoundToEven":
		if x, ok := args[0].(XF); ok {
			mode := map[string]int{"math.RoundToEven": 0, "math.Round": 1, "math.Ceil": 2, "math.Floor": 3, "math.Trunc": 4}[name]
			return p.xfToIntegral(x, mode), true
		}
		if f, ok := args[0].(*smt.Term); ok && f.Sort.K == smt.SFP {
			mode := map[string]int{"math.RoundToEven": 0, "math.Round": 1, "math.Ceil": 2, "math.Floor": 3, "math.Trunc": 4}[name]
			return smt.FPRound(f, mode), true
		}
	case "math.Min", "math.Max":
		// Go's special cases: a NaN operand gives NaN; infinities order as usual. (The sign of a
		// zero result for Min(-0, +0) is not modelled: either zero is returned.)
		x, okx := args[0].(*smt.Term)
		y, oky := args[1].(*smt.Term)
		if okx && oky && x.Sort.K == smt.SFP && y.Sort.K == smt.SFP {
			pick := smt.FPLt(x, y)
			if name == "math.Max" {
				pick = smt.FPLt(y, x)
			}
			return smt.Ite(smt.Or(smt.FPIsNaN(x), smt.FPIsNaN(y)), smt.ConstFP(math.NaN()), smt.Ite(pick, x, y)), true
		}
	case "math.Abs":
		if f, ok := args[0].(*smt.Term); ok && f.Sort.K == smt.SFP {
			return smt.Ite(smt.FPLt(f, smt.ConstFP(0)), smt.FPNeg(f), f), true
		}
	case "strconv.FormatFloat":
		if x, ok := args[0].(XF); ok {
			f, _ := asInt(args[1])
			prec, _ := asInt(args[2])
			bits, _ := asInt(args[3])
			if byte(f) != 'f' || prec < 0 || prec > 2 || (bits != 32 && bits != 64) {
				p.abortf("Int back end: strconv.FormatFloat(%c, %d, %d) not lowered", byte(f), prec, bits)
			}
			if bits == 32 {
				x = p.xfToFloat32(x)
			}
			return Str{tok: &FmtTok{Format: fmt.Sprintf("%%.%df", prec), X: &x}}, true
		}
	case "regexp.Compile":
		pat := p.strArg(args[0], "regexp pattern")
		rx, err := compileRx(pat)
		if err != nil {
			var cell Value = Struct{mkStr(err.Error())}
			return Tuple{(*RxVal)(nil), Iface{T: types.NewPointer(p.in.errorsErrorString), V: &cell}}, true
		}
		return Tuple{rx, Iface{}}, true
	case "regexp.MustCompile":
		pat := p.strArg(args[0], "regexp pattern")
		rx, err := compileRx(pat)
		if err != nil {
			panic(targetPanic{msg: "regexp: Compile(" + pat + "): " + err.Error()})
		}
		return rx, true
	case "(*regexp.Regexp).MatchString":
		rx := args[0].(*RxVal)
		if rx == nil {
			panic(targetPanic{msg: "nil *regexp.Regexp"})
		}
		s := args[1].(Str)
		if s.isConcrete() {
			return smt.ConstBool(rx.re.MatchString(s.c)), true
		}
		return p.rxMatch(rx, s.bytesOrAbort(p), false, false), true
	case "(*regexp.Regexp).FindStringIndex":
		rx := args[0].(*RxVal)
		loc := rx.re.FindStringIndex(p.strArg(args[1], "regexp subject (FindStringIndex is only supported on concrete subjects)"))
		if loc == nil {
			return []Value(nil), true
		}
		return []Value{intConst(int64(loc[0])), intConst(int64(loc[1]))}, true
	case "(*regexp.Regexp).FindString":
		rx := args[0].(*RxVal)
		return mkStr(rx.re.FindString(p.strArg(args[1], "regexp subject (FindString is only supported on concrete subjects)"))), true
	case "(*regexp.Regexp).Longest":
		args[0].(*RxVal).re.Longest()
		return nil, true
	case "(*regexp.Regexp).String":
		return mkStr(args[0].(*RxVal).src), true
	case "(*strings.Builder).copyCheck":
		return nil, true
	case "(*strings.Builder).String":
		buf, _ := (*args[0].(*Value)).(Struct)[1].([]Value)
		ts := make([]*smt.Term, len(buf))
		for i, e := range buf {
			ts[i] = e.(*smt.Term)
		}
		return strFromTerms(ts), true
	case "fmt.Sprintf":
		return p.sprintf(caller, p.strArg(args[0], "format"), args[1].([]Value)), true
	case "fmt.Sprint":
		return p.sprintf(caller, strings.TrimSuffix(strings.Repeat("%v", len(args[0].([]Value))), " "), args[0].([]Value)), true
	case "fmt.Errorf":
		return p.errorf(caller, p.strArg(args[0], "format"), args[1].([]Value)), true
	case "fmt.Fprintf":
		s := p.sprintf(caller, p.strArg(args[1], "format"), args[2].([]Value))
		return p.writeTo(caller, args[0].(Iface), s), true
	case "fmt.Fprint":
		vs := args[1].([]Value)
		s := p.sprintf(caller, strings.Repeat("%v", len(vs)), vs)
		return p.writeTo(caller, args[0].(Iface), s), true
	case "fmt.Fprintln":
		vs := args[1].([]Value)
		f := strings.TrimSuffix(strings.Repeat("%v ", len(vs)), " ") + "\n"
		s := p.sprintf(caller, f, vs)
		return p.writeTo(caller, args[0].(Iface), s), true
	case "encoding/json.Marshal", "encoding/json.MarshalIndent":
		p.lastJSON = args[0]
		p.jsonCalls++
		// encoding/json refuses NaN and +-Inf (UnsupportedValueError)
		if bad := jsonBadFloat(args[0], 0); !bad.IsFalse() && p.branch(bad) {
			var cell Value = Struct{mkStr("json: unsupported value: NaN or Inf")}
			return Tuple{[]Value(nil), Iface{T: types.NewPointer(p.in.errorsErrorString), V: &cell}}, true
		}
		return Tuple{[]Value{smt.ConstBV(8, 'n'), smt.ConstBV(8, 'u'), smt.ConstBV(8, 'l'), smt.ConstBV(8, 'l')}, Iface{}}, true
	case "(*os.File).Write":
		// output to the process's real stdout/stderr is discarded (never a subject)
		return Tuple{intConst(int64(len(args[1].([]Value)))), Iface{}}, true
	case "(*os.File).WriteString":
		return Tuple{p.strLen(args[1].(Str)), Iface{}}, true
	case "os.Environ":
		p.abortf("os.Environ reached without a stub")
	case "runtime.KeepAlive", "runtime.SetFinalizer", "runtime.Gosched", "internal/race.Acquire", "internal/race.Release",
		"internal/race.ReleaseMerge", "internal/race.Read", "internal/race.Write", "internal/race.Disable", "internal/race.Enable",
		"internal/race.ReadRange", "internal/race.WriteRange":
		return nil, true
	case "internal/godebug.(*Setting).Value":
		return mkStr(""), true
	case "(*internal/godebug.Setting).Value":
		return mkStr(""), true
	case "(*internal/godebug.Setting).IncNonDefault":
		return nil, true
	case "regexp.QuoteMeta":
		if s0 := args[0].(Str); s0.isConcrete() {
			return mkStr(regexp.QuoteMeta(s0.c)), true
		}
	case "strconv.ParseFloat":
		if s0 := args[0].(Str); s0.isConcrete() {
			if bits, ok := asInt(args[1]); ok {
				f, err := strconv.ParseFloat(s0.c, int(bits))
				if err != nil {
					var cell Value = Struct{mkStr(err.Error())}
					return Tuple{smt.ConstFP(f), Iface{T: types.NewPointer(p.in.errorsErrorString), V: &cell}}, true
				}
				return Tuple{smt.ConstFP(f), Iface{}}, true
			}
		}
	case "context.WithCancel":
		// model: the derived context is the parent itself and cancelling is a no-op. Sound for
		// harnesses in which nothing observes Done()/Err() of the derived context (the scan
		// harnesses replace every consumer of the context by stubs that ignore it).
		return Tuple{args[0], NativeFn(func([]Value) Value { return nil })}, true
	case "(*sync.WaitGroup).Add":
		if p.wgCount == nil {
			p.wgCount = map[*Value]int{}
		}
		p.wgCount[args[0].(*Value)] += int(p.intArg(args[1], "WaitGroup delta"))
		if p.wgCount[args[0].(*Value)] < 0 {
			panic(targetPanic{msg: "sync: negative WaitGroup counter"})
		}
		return nil, true
	case "(*sync.WaitGroup).Done":
		if p.wgCount == nil {
			p.wgCount = map[*Value]int{}
		}
		p.wgCount[args[0].(*Value)]--
		if p.wgCount[args[0].(*Value)] < 0 {
			panic(targetPanic{msg: "sync: negative WaitGroup counter"})
		}
		return nil, true
	case "(*sync.WaitGroup).Wait":
		// the waiter blocks: pending goroutines (lazy schedule) get to run
		for p.wgCount[args[0].(*Value)] > 0 && len(p.pendingGo) > 0 {
			p.runPendingOne()
		}
		if p.wgCount[args[0].(*Value)] > 0 {
			panic(targetPanic{msg: "WaitGroup.Wait: would block forever (deadlock) in sequential semantics"})
		}
		return nil, true
	case "errors.As":
		return smt.ConstBool(p.errorsAs(caller, args[0].(Iface), args[1].(Iface), 0)), true
	case "errors.Is":
		return smt.ConstBool(p.errorsIs(caller, args[0].(Iface), args[1].(Iface), 0)), true
	case "internal/bytealg.IndexByteString", "strings.IndexByte":
		if s0, c := args[0].(Str), args[1].(*smt.Term); s0.isConcrete() && c.IsConst() {
			return intConst(int64(strings.IndexByte(s0.c, byte(c.C)))), true
		}
		return p.indexByte(args[0].(Str).bytesOrAbort(p), args[1].(*smt.Term)), true
	case "internal/bytealg.IndexByte", "bytes.IndexByte":
		return p.indexByte(p.byteSlice(args[0]), args[1].(*smt.Term)), true
	case "internal/bytealg.CountString":
		if s0, c := args[0].(Str), args[1].(*smt.Term); s0.isConcrete() && c.IsConst() {
			return intConst(int64(strings.Count(s0.c, string([]byte{byte(c.C)})))), true
		}
		return p.countByte(args[0].(Str).bytesOrAbort(p), args[1].(*smt.Term)), true
	case "internal/bytealg.Count":
		return p.countByte(p.byteSlice(args[0]), args[1].(*smt.Term)), true
	case "internal/bytealg.Equal", "bytes.Equal":
		return p.equalBytes(p.byteSlice(args[0]), p.byteSlice(args[1])), true
	case "strings.Index":
		if a, b := args[0].(Str), args[1].(Str); a.isConcrete() && b.isConcrete() {
			return intConst(int64(strings.Index(a.c, b.c))), true
		}
		return p.indexSeq(args[0].(Str).bytesOrAbort(p), args[1].(Str).bytesOrAbort(p)), true
	case "bytes.Index":
		return p.indexSeq(p.byteSlice(args[0]), p.byteSlice(args[1])), true
	case "internal/stringslite.Index":
		if a, b := args[0].(Str), args[1].(Str); a.isConcrete() && b.isConcrete() {
			return intConst(int64(strings.Index(a.c, b.c))), true
		}
		return p.indexSeq(args[0].(Str).bytesOrAbort(p), args[1].(Str).bytesOrAbort(p)), true
	case "internal/stringslite.IndexByte":
		if s0, c := args[0].(Str), args[1].(*smt.Term); s0.isConcrete() && c.IsConst() {
			return intConst(int64(strings.IndexByte(s0.c, byte(c.C)))), true
		}
		return p.indexByte(args[0].(Str).bytesOrAbort(p), args[1].(*smt.Term)), true
	case "strings.Clone", "internal/stringslite.Clone":
		return args[0], true
	case "internal/bytealg.MakeNoZero":
		n := p.concretize(args[0].(*smt.Term), true, "MakeNoZero")
		sl := make([]Value, n)
		for i := range sl {
			sl[i] = smt.ConstBV(8, 0)
		}
		return sl, true
	case "unicode/utf8.RuneCountInString":
		s := args[0].(Str)
		if s.isConcrete() {
			return intConst(int64(len([]rune(s.c)))), true
		}
		p.needShape(s, "RuneCountInString")
		for i := 0; i < s.length(); i++ {
			p.mustAssumeASCII(s.at(i))
		}
		return intConst(int64(s.length())), true
	case "unicode/utf8.ValidString":
		s := args[0].(Str)
		if !s.isConcrete() {
			p.abortf("utf8.ValidString on symbolic string")
		}
	}
	if strings.HasPrefix(name, "sync/atomic.") {
		return p.atomicOp(short, args), true
	}
	return nil, false
}

func (s Str) bytesOrAbort(p *Path) []*smt.Term {
	p.needShape(s, "byte access")
	return s.bytesT()
}

func (p *Path) byteSlice(v Value) []*smt.Term {
	sl := v.([]Value)
	r := make([]*smt.Term, len(sl))
	for i, e := range sl {
		r[i] = e.(*smt.Term)
	}
	return r
}

// indexByte forks on the first position holding c (this is the case
// split over delimiter positions).
func (p *Path) indexByte(bs []*smt.Term, c *smt.Term) Value {
	for i, b := range bs {
		if p.branch(smt.Eq(b, c)) {
			return intConst(int64(i))
		}
	}
	return intConst(-1)
}

func (p *Path) countByte(bs []*smt.Term, c *smt.Term) Value {
	n := int64(0)
	for _, b := range bs {
		if p.branch(smt.Eq(b, c)) {
			n++
		}
	}
	return intConst(n)
}

func (p *Path) equalBytes(a, b []*smt.Term) Value {
	if len(a) != len(b) {
		return smt.False
	}
	r := smt.True
	for i := range a {
		r = smt.And(r, smt.Eq(a[i], b[i]))
	}
	return r
}

func (p *Path) indexSeq(hay, needle []*smt.Term) Value {
	n := len(needle)
	if n == 0 {
		return intConst(0)
	}
	for i := 0; i+n <= len(hay); i++ {
		m := smt.True
		for j := 0; j < n; j++ {
			m = smt.And(m, smt.Eq(hay[i+j], needle[j]))
		}
		if p.branch(m) {
			return intConst(int64(i))
		}
	}
	return intConst(-1)
}

func (p *Path) atomicOp(short string, args []Value) Value {
	addr, _ := args[0].(*Value)
	if addr == nil {
		panic(targetPanic{msg: "atomic op on nil pointer"})
	}
	switch {
	case strings.HasPrefix(short, "Load"):
		return *addr
	case strings.HasPrefix(short, "Store"):
		*addr = args[1]
		return nil
	case strings.HasPrefix(short, "Add"):
		*addr = smt.BVAdd((*addr).(*smt.Term), args[1].(*smt.Term))
		return *addr
	case strings.HasPrefix(short, "Swap"):
		old := *addr
		*addr = args[1]
		return old
	case strings.HasPrefix(short, "CompareAndSwap"):
		var eq *smt.Term
		switch o := args[1].(type) {
		case *smt.Term:
			eq = smt.Eq((*addr).(*smt.Term), o)
		case *Value:
			eq = smt.ConstBool((*addr).(*Value) == o)
		default:
			p.abortf("atomic CAS on %T", o)
		}
		if p.branch(eq) {
			*addr = args[2]
			return smt.True
		}
		return smt.False
	}
	p.abortf("unsupported atomic op %s", short)
	return nil
}

// writeTo calls w.Write([]byte(s)) through the interface.
func (p *Path) writeTo(caller *frame, w Iface, s Str) Value {
	if w.T == nil {
		panic(targetPanic{msg: "Fprintf to nil writer"})
	}
	if s.approx || s.tok != nil || s.opq != nil {
		p.abortf("writing an unmodelled string to a writer")
	}
	m := p.method(w.T, "Write")
	if m == nil {
		p.abortf("writer %s has no Write", w.T)
	}
	bs := s.bytesT()
	sl := make([]Value, len(bs))
	for i, b := range bs {
		sl[i] = b
	}
	return p.callSSA(caller, token.NoPos, m, []Value{w.V, sl}, nil)
}

// errorf builds an error value. %w keeps the wrapped error reachable for
// errors.Is/As/Unwrap by instantiating fmt's own *wrapError.
func (p *Path) errorf(caller *frame, format string, args []Value) Value {
	msg := p.sprintf(caller, strings.ReplaceAll(format, "%w", "%v"), args)
	if i := strings.Index(format, "%w"); i >= 0 && p.in.fmtWrapErr != nil {
		// find which argument %w refers to: count verbs before it
		n := 0
		for j := 0; j < i; j++ {
			if format[j] == '%' {
				if j+1 < len(format) && format[j+1] == '%' {
					j++
					continue
				}
				n++
			}
		}
		if n < len(args) {
			if it, ok := args[n].(Iface); ok {
				var cell Value = Struct{msg, it}
				return Iface{T: types.NewPointer(p.in.fmtWrapErr), V: &cell}
			}
		}
	}
	var cell Value = Struct{msg}
	return Iface{T: types.NewPointer(p.in.errorsErrorString), V: &cell}
}

// nativeArg converts an interpreted value to a Go value for fmt.
// sym=true means the value has symbolic parts.
func (p *Path) nativeArg(caller *frame, v Value, t types.Type) (out interface{}, sym bool) {
	switch v := v.(type) {
	case Iface:
		if v.T == nil {
			return nil, false
		}
		// error / Stringer take precedence, as in fmt
		for _, mname := range []string{"Error", "String"} {
			if m := p.method(v.T, mname); m != nil && m.Signature.Params().Len() == 0 && m.Signature.Results().Len() == 1 {
				if b, ok := m.Signature.Results().At(0).Type().Underlying().(*types.Basic); ok && b.Kind() == types.String {
					if ptr, ok := v.V.(*Value); ok && ptr == nil {
						return "<nil>", false
					}
					r := p.callSSA(caller, token.NoPos, m, []Value{v.V}, nil).(Str)
					if r.isConcrete() {
						if mname == "Error" {
							return errors.New(r.c), false
						}
						return fmtStringer(r.c), false
					}
					return r, true
				}
			}
		}
		return p.nativeArg(caller, v.V, v.T)
	case XF:
		return v, true
	case *smt.Term:
		if !v.IsConst() {
			return v, true
		}
		if v.Sort.K == smt.SInt {
			return v.Big.String(), false
		}
		ki := basicInfo(t)
		switch {
		case ki.isBool:
			return v.C == 1, false
		case ki.isFloat:
			return v.F, false
		case ki.isInt:
			b, _ := t.Underlying().(*types.Basic)
			switch b.Kind() {
			case types.Int:
				return int(int64(v.C)), false
			case types.Int8:
				return int8(v.C), false
			case types.Int16:
				return int16(v.C), false
			case types.Int32:
				return int32(v.C), false
			case types.Int64:
				return int64(v.C), false
			case types.Uint:
				return uint(v.C), false
			case types.Uint8:
				return uint8(v.C), false
			case types.Uint16:
				return uint16(v.C), false
			case types.Uint32:
				return uint32(v.C), false
			case types.Uint64:
				return v.C, false
			case types.Uintptr:
				return uintptr(v.C), false
			}
		}
		return v.C, false
	case Str:
		if v.isConcrete() {
			return v.c, false
		}
		return v, true
	case []Value:
		if sl, ok := t.Underlying().(*types.Slice); ok {
			if b, ok := sl.Elem().Underlying().(*types.Basic); ok && b.Kind() == types.Byte {
				bs := make([]byte, len(v))
				for i, e := range v {
					c, ok := asInt(e)
					if !ok {
						ts := make([]*smt.Term, len(v))
						for j, e := range v {
							ts[j] = e.(*smt.Term)
						}
						return strFromTerms(ts), true
					}
					bs[i] = byte(c)
				}
				return bs, false
			}
		}
		return fmt.Sprintf("<slice len=%d>", len(v)), true
	case *Value:
		if v == nil {
			return nil, false
		}
		return "<ptr>", true
	}
	return fmt.Sprintf("<%T>", v), true
}

type fmtStringer string

func (s fmtStringer) String() string { return string(s) }

// sprintf implements fmt.Sprintf over interpreted values.
func (p *Path) sprintf(caller *frame, format string, args []Value) Str {
	natives := make([]interface{}, len(args))
	anySym := false
	for i, a := range args {
		it, _ := a.(Iface)
		n, sym := p.nativeArg(caller, it, nil)
		natives[i] = n
		if sym {
			anySym = true
		}
	}
	if !anySym {
		return mkStr(fmt.Sprintf(format, natives...))
	}
	// a '*' width or precision with a concrete operand is folded into the format text
	if strings.Contains(format, "*") {
		var fb strings.Builder
		var keepArgs []Value
		var keepNat []interface{}
		ai := 0
		ok := true
		for k := 0; k < len(format) && ok; k++ {
			c := format[k]
			if c != '%' {
				fb.WriteByte(c)
				continue
			}
			fb.WriteByte('%')
			k++
			for k < len(format) && strings.IndexByte("+-# 0123456789.*", format[k]) >= 0 {
				if format[k] == '*' {
					if ai < len(natives) {
						switch w := natives[ai].(type) {
						case int:
							fb.WriteString(strconv.Itoa(w))
						case int64:
							fb.WriteString(strconv.FormatInt(w, 10))
						default:
							ok = false
						}
						ai++
					} else {
						ok = false
					}
				} else {
					fb.WriteByte(format[k])
				}
				k++
			}
			if k < len(format) {
				fb.WriteByte(format[k])
				if format[k] != '%' && ai < len(args) {
					keepArgs = append(keepArgs, args[ai])
					keepNat = append(keepNat, natives[ai])
					ai++
				}
			}
		}
		if ok {
			format, args, natives = fb.String(), keepArgs, keepNat
		}
	}
	// single verb on a symbolic scalar -> format token
	if len(args) == 1 && strings.HasPrefix(format, "%") && strings.Count(format, "%") == 1 {
		if t, ok := natives[0].(*smt.Term); ok {
			it := args[0].(Iface)
			return Str{tok: &FmtTok{Format: format, Arg: t, Signed: basicInfo(it.T).signed}}
		}
		if x, ok := natives[0].(XF); ok {
			return Str{tok: &FmtTok{Format: format, X: &x}}
		}
	}
	// a numeral assembled from two integers: whole part, '.', fractional digits (no padding)
	if format == "%d.%d" && len(args) == 2 {
		a, aok := natives[0].(*smt.Term)
		b, bok := natives[1].(*smt.Term)
		if aok && bok {
			return Str{tok: &FmtTok{Format: format, Arg: a, Arg2: b}}
		}
	}
	// piecewise formatting
	var out []*smt.Term
	approx := false
	argi := 0
	i := 0
	lit := func(s string) {
		for j := 0; j < len(s); j++ {
			out = append(out, smt.ConstBV(8, uint64(s[j])))
		}
	}
	for i < len(format) {
		c := format[i]
		if c != '%' {
			lit(string(c))
			i++
			continue
		}
		j := i + 1
		for j < len(format) && strings.IndexByte("+-# 0123456789.", format[j]) >= 0 {
			j++
		}
		if j >= len(format) {
			lit(format[i:])
			break
		}
		verb := format[j]
		spec := format[i : j+1]
		i = j + 1
		if verb == '%' {
			lit("%")
			continue
		}
		if argi >= len(args) {
			lit("%!" + string(verb) + "(MISSING)")
			continue
		}
		n := natives[argi]
		argi++
		switch n := n.(type) {
		case Str:
			if !n.shapeKnown() {
				approx = true
				continue
			}
			if verb != 's' && verb != 'v' {
				approx = true
				continue
			}
			flags := spec[1 : len(spec)-1]
			bs := n.bytesT()
			if flags == "" {
				out = append(out, bs...)
				continue
			}
			// width / left-justify: needs rune count == byte count
			left := strings.HasPrefix(flags, "-")
			wstr := strings.TrimPrefix(flags, "-")
			width := 0
			okw := true
			for _, ch := range wstr {
				if ch < '0' || ch > '9' {
					okw = false
				}
				width = width*10 + int(ch-'0')
			}
			if !okw {
				approx = true
				continue
			}
			for _, b := range bs {
				p.mustAssumeASCII(b)
			}
			pad := width - len(bs)
			if !left {
				for k := 0; k < pad; k++ {
					out = append(out, smt.ConstBV(8, ' '))
				}
			}
			out = append(out, bs...)
			if left {
				for k := 0; k < pad; k++ {
					out = append(out, smt.ConstBV(8, ' '))
				}
			}
		case *smt.Term:
			approx = true
		default:
			if s, ok := n.(string); ok && strings.HasPrefix(s, "<") && strings.HasSuffix(s, ">") {
				approx = true
				continue
			}
			lit(fmt.Sprintf(spec, n))
		}
	}
	if approx {
		return Str{c: "<formatted: " + format + ">", approx: true}
	}
	return strFromTerms(out)
}

// method returns the SSA function implementing exported method name on T, or nil.
func (p *Path) method(T types.Type, name string) *ssa.Function {
	sel := p.in.Prog.MethodSets.MethodSet(T).Lookup(nil, name)
	if sel == nil {
		return nil
	}
	return p.in.Prog.MethodValue(sel)
}

// errorsIs mirrors errors.Is (without reflection): identity, an Is method, Unwrap chains.
func (p *Path) errorsIs(caller *frame, err, target Iface, depth int) bool {
	if err.T == nil || target.T == nil {
		return err.T == nil && target.T == nil
	}
	if depth > 32 {
		p.abortf("errors.Is: unwrap chain too deep")
	}
	comparable := types.Comparable(target.T)
	for {
		if comparable && sameType(err.T, target.T) {
			eq := p.equals(err.T, err.V, target.V)
			if p.branch(eq) {
				return true
			}
		}
		if m := p.method(err.T, "Is"); m != nil && m.Signature.Params().Len() == 1 {
			r := p.callSSA(caller, token.NoPos, m, []Value{err.V, target}, nil)
			if t, ok := r.(*smt.Term); ok && p.branch(t) {
				return true
			}
		}
		m := p.method(err.T, "Unwrap")
		if m == nil {
			return false
		}
		r := p.callSSA(caller, token.NoPos, m, []Value{err.V}, nil)
		switch r := r.(type) {
		case Iface:
			if r.T == nil {
				return false
			}
			err = r
		case []Value:
			for _, e := range r {
				if ei, ok := e.(Iface); ok && ei.T != nil && p.errorsIs(caller, ei, target, depth+1) {
					return true
				}
			}
			return false
		default:
			return false
		}
	}
}

// errorsAs mirrors errors.As (without reflection): the first error in the
// Unwrap chain that is assignable to *target is stored there.
func (p *Path) errorsAs(caller *frame, err, target Iface, depth int) bool {
	if target.T == nil {
		panic(targetPanic{msg: "errors: target cannot be nil"})
	}
	pt, ok := target.T.Underlying().(*types.Pointer)
	if !ok {
		panic(targetPanic{msg: "errors: target must be a non-nil pointer"})
	}
	addr, _ := target.V.(*Value)
	if addr == nil {
		panic(targetPanic{msg: "errors: target must be a non-nil pointer"})
	}
	want := pt.Elem()
	_, wantIface := want.Underlying().(*types.Interface)
	if depth > 32 {
		p.abortf("errors.As: unwrap chain too deep")
	}
	for err.T != nil {
		if wantIface {
			if types.AssignableTo(err.T, want) {
				*addr = err
				return true
			}
		} else if sameType(err.T, want) {
			*addr = copyVal(err.V)
			return true
		}
		if m := p.method(err.T, "As"); m != nil {
			p.abortf("errors.As: error type %s has its own As method (not modelled)", err.T)
		}
		m := p.method(err.T, "Unwrap")
		if m == nil {
			return false
		}
		r := p.callSSA(caller, token.NoPos, m, []Value{err.V}, nil)
		switch r := r.(type) {
		case Iface:
			err = r
		case []Value:
			for _, e := range r {
				if ei, ok := e.(Iface); ok && ei.T != nil && p.errorsAs(caller, ei, target, depth+1) {
					return true
				}
			}
			return false
		default:
			return false
		}
	}
	return false
}

// jsonBadFloat is the condition under which some float64 reachable from v
// (through structs, arrays, slices, interfaces and pointers; not through
// values with their own MarshalJSON, which the captured document does not
// expand) is NaN or infinite.
func jsonBadFloat(v Value, depth int) *smt.Term {
	if depth > 6 {
		return smt.False
	}
	switch v := v.(type) {
	case *smt.Term:
		if v.Sort.K == smt.SFP {
			return smt.OrN(smt.FPIsNaN(v), smt.FPEq(v, smt.ConstFP(math.Inf(1))), smt.FPEq(v, smt.ConstFP(math.Inf(-1))))
		}
	case Struct:
		r := smt.False
		for _, f := range v {
			r = smt.Or(r, jsonBadFloat(f, depth+1))
		}
		return r
	case Array:
		r := smt.False
		for _, f := range v {
			r = smt.Or(r, jsonBadFloat(f, depth+1))
		}
		return r
	case []Value:
		r := smt.False
		for _, f := range v {
			r = smt.Or(r, jsonBadFloat(f, depth+1))
		}
		return r
	case Iface:
		if v.T != nil {
			if _, named := v.T.(*types.Pointer); !named {
				return jsonBadFloat(v.V, depth+1)
			}
		}
	}
	return smt.False
}
