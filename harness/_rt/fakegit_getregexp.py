#!/usr/bin/env python3
# Model of `git config -z --get-regexp P` over a `--list -z` listing (see vpGetRegexpModel).
import re, sys
data = open(sys.argv[1], 'rb').read()
pat = bytearray(sys.argv[2].encode('utf-8', 'surrogateescape'))
i = len(pat) - 1
while i >= 0 and pat[i] != 0x2e:
    pat[i:i+1] = bytes(pat[i:i+1]).lower(); i -= 1
i = 0
while i < len(pat) and pat[i] != 0x2e:
    pat[i:i+1] = bytes(pat[i:i+1]).lower(); i += 1
try:
    rx = re.compile(bytes(pat))
except re.error:
    sys.stderr.write("error: invalid key pattern\n"); sys.exit(6)
out = b''
for rec in data.split(b'\0')[:-1]:
    key = rec.split(b'\n', 1)[0]
    if rx.search(key):
        out += rec + b'\0'
if not out:
    sys.exit(1)
sys.stdout.buffer.write(out)
