package symex

import (
	"fmt"
	"go/token"
	"os"
	"runtime/debug"
	"sort"
	"sync"
	"time"

	"golang.org/x/tools/go/ssa"

	"verif/engine/smt"
)

type ExploreConfig struct {
	Entry        *ssa.Function
	Workers      int
	MaxPaths     int
	MaxSteps     int
	Solver       string
	TimeoutMs    int
	Deadline     time.Time
	LogSMT       string // directory for transcripts (debug)
	KeepFuncs    bool
	StopOnViol   int // stop after this many violating paths (0 = never)
	Params       map[string]int64
	IntMode      bool
	OnPath       func(*PathResult) // if set, results are streamed instead of retained
	SampleModels int               // keep an end-of-path model for this many paths
	sampled      *int
}

type ExploreResult struct {
	Paths        []*PathResult
	NPaths       int
	Truncated    bool
	Queries      int
	SolverTime   time.Duration
	MaxQueryMs   float64
	SolverErrors []string
	Wall         time.Duration
}

var sampleMu sync.Mutex

func (c *ExploreConfig) sampleSlot() bool {
	sampleMu.Lock()
	defer sampleMu.Unlock()
	if c.sampled == nil || *c.sampled >= c.SampleModels {
		return false
	}
	*c.sampled++
	return true
}

// Explore runs the harness entry over all feasible paths.
func (in *Interp) Explore(cfg ExploreConfig) *ExploreResult {
	if cfg.Workers <= 0 {
		cfg.Workers = 1
	}
	if cfg.MaxSteps <= 0 {
		cfg.MaxSteps = 2_000_000
	}
	if cfg.MaxPaths <= 0 {
		cfg.MaxPaths = 100000
	}
	if cfg.Solver == "" {
		cfg.Solver = "z3"
	}
	if cfg.TimeoutMs <= 0 {
		cfg.TimeoutMs = 60000
	}
	cfg.sampled = new(int)
	t0 := time.Now()
	var mu sync.Mutex
	cond := sync.NewCond(&mu)
	queue := [][]int64{{}}
	inflight := 0
	started := 0
	viol := 0
	res := &ExploreResult{}

	worker := func(id int) {
		sess, err := smt.NewSession(cfg.Solver, cfg.TimeoutMs)
		if err != nil {
			mu.Lock()
			res.SolverErrors = append(res.SolverErrors, err.Error())
			mu.Unlock()
			return
		}
		if cfg.LogSMT != "" {
			f, _ := os.Create(fmt.Sprintf("%s/w%d.smt2", cfg.LogSMT, id))
			if f != nil {
				defer f.Close()
				sess.Log = f
			}
		}
		defer func() {
			mu.Lock()
			res.Queries += sess.Queries
			res.SolverTime += sess.Time
			if sess.MaxMs > res.MaxQueryMs {
				res.MaxQueryMs = sess.MaxMs
			}
			for _, e := range sess.Errors {
				if len(res.SolverErrors) < 20 {
					res.SolverErrors = append(res.SolverErrors, e)
				}
			}
			mu.Unlock()
			sess.Close()
		}()
		for {
			mu.Lock()
			for len(queue) == 0 && inflight > 0 {
				cond.Wait()
			}
			if len(queue) == 0 {
				mu.Unlock()
				cond.Broadcast()
				return
			}
			stop := started >= cfg.MaxPaths || (!cfg.Deadline.IsZero() && time.Now().After(cfg.Deadline)) ||
				(cfg.StopOnViol > 0 && viol >= cfg.StopOnViol)
			if stop {
				if len(queue) > 0 {
					res.Truncated = true
				}
				queue = nil
				mu.Unlock()
				cond.Broadcast()
				return
			}
			prefix := queue[len(queue)-1]
			queue = queue[:len(queue)-1]
			inflight++
			started++
			mu.Unlock()

			nErr := len(sess.Errors)
			pr := in.runPath(sess, cfg, prefix)
			if len(sess.Errors) > nErr {
				pr.Outcome = "abort:solver error: " + sess.Errors[len(sess.Errors)-1]
			}

			mu.Lock()
			res.NPaths++
			if cfg.OnPath != nil {
				cfg.OnPath(pr)
			} else {
				res.Paths = append(res.Paths, pr)
			}
			for _, a := range pr.Asserts {
				if a.Verdict == "sat" && a.Known == "" {
					viol++
					break
				}
			}
			for _, f := range pr.Forks {
				queue = append(queue, f)
			}
			pr.Forks = nil
			inflight--
			mu.Unlock()
			cond.Broadcast()
		}
	}
	var wg sync.WaitGroup
	for i := 0; i < cfg.Workers; i++ {
		wg.Add(1)
		go func(i int) { defer wg.Done(); worker(i) }(i)
	}
	wg.Wait()
	sort.Slice(res.Paths, func(i, j int) bool {
		a, b := res.Paths[i].Decisions, res.Paths[j].Decisions
		for k := 0; k < len(a) && k < len(b); k++ {
			if a[k] != b[k] {
				return a[k] < b[k]
			}
		}
		return len(a) < len(b)
	})
	res.Wall = time.Since(t0)
	return res
}

func (in *Interp) newPath(sess *smt.Session, maxSteps int) *Path {
	p := &Path{
		in:         in,
		sess:       sess,
		pcSet:      map[*smt.Term]bool{},
		pcNeg:      map[*smt.Term]bool{},
		pcNames:    map[string]bool{},
		varIdx:     map[string]int{},
		varMemo:    map[*smt.Term][]int{},
		pcNegNames: map[string]bool{},
		occ:        map[string]int{},
		calls:      map[*ssa.Function]int{},
		stubs:      map[string]Value{},
		known:      map[string]*smt.Term{},
		maxSteps:   maxSteps,
		res:        &PathResult{Observed: map[string]string{}, choiceVals: map[string]int64{}},
	}
	return p
}

func (in *Interp) runPath(sess *smt.Session, cfg ExploreConfig, prefix []int64) (pr *PathResult) {
	p := in.newPath(sess, cfg.MaxSteps)
	p.prefix = prefix
	p.params = cfg.Params
	p.intMode = cfg.IntMode
	if cfg.KeepFuncs {
		p.res.Funcs = map[string]bool{}
	}
	q0 := sess.Queries
	sess.BeginPath()
	defer func() {
		r := recover()
		switch r := r.(type) {
		case nil:
			p.res.Outcome = "end"
			if cfg.sampleSlot() {
				func() {
					defer func() { recover() }()
					// the validation model must lie outside every known-finding
					// region that was hit on this path: inside it the assertion is
					// known to fail and the native run would (rightly) fail too
					var outside *smt.Term
					for _, pred := range p.knownHit {
						if outside == nil {
							outside = smt.Not(pred)
						} else {
							outside = smt.And(outside, smt.Not(pred))
						}
					}
					if p.checkFull(outside) == smt.Sat {
						p.res.EndModel = p.model()
					}
				}()
			}
		case abort:
			p.res.Outcome = "abort:" + r.reason
		case stopPath:
			p.res.Outcome = "stop:" + r.why
		case targetPanic:
			p.res.Outcome = "panic:" + r.msg
			// an uncaught panic is a violation with the current path condition as witness
			rec := AssertRec{Label: "panic: " + r.msg, Verdict: "sat"}
			func() {
				defer func() { recover() }()
				if p.checkFull(nil) == smt.Sat {
					rec.Model = p.model()
				}
			}()
			p.res.Asserts = append(p.res.Asserts, rec)
		default:
			p.res.Outcome = fmt.Sprintf("abort:engine crash: %v\n%s", r, debug.Stack())
		}
		sess.EndPath()
		p.res.Decisions = p.decisions
		p.res.Steps = p.steps
		p.res.Queries = sess.Queries - q0
		p.res.Inputs = p.inputs
		p.res.Forks = p.forks
		pr = p.res
	}()
	p.call(nil, token.NoPos, cfg.Entry, nil)
	if p.cursor < len(p.prefix) {
		panic(abort{"replay did not consume the whole decision prefix (non-deterministic harness?)"})
	}
	return
}
