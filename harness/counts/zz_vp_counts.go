package counts

// H-counts: the saturating-counter laws for every operand pair (C05, C02).

const vpMax32 = uint64(1<<32 - 1)
const vpMax64 = ^uint64(0)

func vpMin(a, b uint64) uint64 { return vp_IteU64(a < b, a, b) }
func vpMax(a, b uint64) uint64 { return vp_IteU64(a > b, a, b) }

func VPH_Plus32() {
	a, b := vp_U32("a"), vp_U32("b")
	got := Count32(a).Plus(Count32(b))
	want := vpMin(uint64(a)+uint64(b), vpMax32)
	vp_Assert(uint64(got) == want, "Plus32=min(a+b,cap)")
	c := Count32(a)
	c.Increment(Count32(b))
	vp_Assert(uint64(c) == want, "Increment32=min(a+b,cap)")
	vp_Reach("end")
}

func VPH_Plus64() {
	a, b := vp_U64("a"), vp_U64("b")
	got := Count64(a).Plus(Count64(b))
	// 65-bit sum by carry
	sum := a + b
	carry := sum < a
	want := vp_IteU64(carry, vpMax64, sum)
	vp_Assert(uint64(got) == want, "Plus64=min(a+b,cap)")
	c := Count64(a)
	c.Increment(Count64(b))
	vp_Assert(uint64(c) == want, "Increment64=min(a+b,cap)")
	vp_Reach("end")
}

func VPH_New32() {
	n := vp_U64("n")
	got := NewCount32(n)
	vp_Assert(uint64(got) == vpMin(n, vpMax32), "NewCount32=min(n,cap)")
	v, of := got.ToUint64()
	vp_Assert(v == uint64(got), "ToUint64 value")
	vp_Assert(of == (n >= vpMax32), "overflow flag iff saturated")
	m := vp_U64("m")
	c64 := NewCount64(m)
	v64, of64 := c64.ToUint64()
	vp_Assert(v64 == m, "ToUint64(64) value")
	vp_Assert(of64 == (m == vpMax64), "overflow flag 64 iff saturated")
	vp_Reach("end")
}

func VPH_Max32() {
	a, b := vp_U32("a"), vp_U32("b")
	c := Count32(a)
	f := c.AdjustMaxIfNecessary(Count32(b))
	vp_Assert(uint64(c) == vpMax(uint64(a), uint64(b)), "AdjustMaxIfNecessary32=max")
	vp_Assert(f == (b > a), "AdjustMaxIfNecessary32 flag iff strictly greater")
	vp_Assert(vp_Imp(f, uint32(c) == b), "flag implies value is the new operand")
	c = Count32(a)
	f = c.AdjustMaxIfPossible(Count32(b))
	vp_Assert(uint64(c) == vpMax(uint64(a), uint64(b)), "AdjustMaxIfPossible32=max")
	vp_Assert(f == (b >= a), "AdjustMaxIfPossible32 flag iff >=")
	vp_Assert(vp_Imp(f, uint32(c) == b), "flag implies value is the new operand (possible)")
	vp_Reach("end")
}

func VPH_Max64() {
	a, b := vp_U64("a"), vp_U64("b")
	c := Count64(a)
	f := c.AdjustMaxIfNecessary(Count64(b))
	vp_Assert(uint64(c) == vpMax(a, b), "AdjustMaxIfNecessary64=max")
	vp_Assert(f == (b > a), "AdjustMaxIfNecessary64 flag iff strictly greater")
	c = Count64(a)
	f = c.AdjustMaxIfPossible(Count64(b))
	vp_Assert(uint64(c) == vpMax(a, b), "AdjustMaxIfPossible64=max")
	vp_Assert(vp_Imp(f, uint64(c) == b), "flag implies value is the new operand (64)")
	vp_Reach("end")
}

// Homomorphism: the clamp commutes with + and max over unbounded naturals
// (x, y are 64-bit naturals for the 32-bit counter; two-limb for 64 bits).
func VPH_Homo32() {
	x, y := vp_U64("x"), vp_U64("y")
	vp_Assume(x < 1<<62)
	vp_Assume(y < 1<<62)
	cx, cy := NewCount32(x), NewCount32(y)
	vp_Assert(uint64(cx.Plus(cy)) == vpMin(x+y, vpMax32), "Plus(alpha x, alpha y)=alpha(x+y)")
	m := cx
	m.AdjustMaxIfNecessary(cy)
	vp_Assert(uint64(m) == vpMin(vpMax(x, y), vpMax32), "max(alpha x, alpha y)=alpha(max)")
	vp_Reach("end")
}

func VPH_Homo64() {
	// naturals xh:xl and yh:yl below 2^127; alpha64(v) = v if vh==0 else cap
	xh, xl, yh, yl := vp_U64("xh"), vp_U64("xl"), vp_U64("yh"), vp_U64("yl")
	vp_Assume(xh < 1<<62)
	vp_Assume(yh < 1<<62)
	ax := Count64(vp_IteU64(xh == 0, xl, vpMax64))
	ay := Count64(vp_IteU64(yh == 0, yl, vpMax64))
	sl := xl + yl
	carry := vp_IteU64(sl < xl, 1, 0)
	sh := xh + yh + carry
	// alpha of the true sum: cap also when the low limb itself equals cap
	want := vp_IteU64(sh == 0, sl, vpMax64)
	vp_Assert(uint64(ax.Plus(ay)) == want, "Plus64(alpha x, alpha y)=alpha(x+y)")
	vp_Reach("end")
}
