#!/usr/bin/env python3
"""Regenerates the two tables of DESIGN.md that are derived from harness/harness.json:
Appendix G (all registered harnesses) and the harness column of section 0.6.
usage: ./gen_design_tables.py   (rewrites DESIGN.md in place)"""
import json, re, os
here = os.path.dirname(os.path.abspath(__file__))
hs = json.load(open(os.path.join(here, 'harness/harness.json')))['harnesses']


def params(t):
    p = (t or {}).get('params')
    return json.dumps(p, sort_keys=True) if p else None


rows = ['| harness | properties | back end | quick params | thorough params | native replay | bounds |',
        '|---|---|---|---|---|---|---|']
for h in hs:
    be = h.get('backend', 'bv')
    if h.get('solver'):
        be += '/' + h['solver']
    q = params(h.get('quick')) or '–'
    t = params(h.get('thorough'))
    t = '= quick' if (t is None or t == params(h.get('quick'))) else t
    if (h.get('quick') or {}).get('skip'):
        q = 'skipped'
    rows.append('| `%s` | %s | %s | %s | %s | %s | %s |' % (
        h['name'], ' '.join(h['props']), be, q, t,
        'engine only' if h.get('no_native') else 'yes', h.get('bounds', '').replace('|', '\\|')))
table_g = '\n'.join(rows) + '\n'

p = os.path.join(here, 'DESIGN.md')
s = open(p).read()
head = '## Appendix G — the registered harnesses (generated from harness/harness.json)\n\n'
i = s.index(head) + len(head)
k = s.index('|---|', i)
j = s.find('\n\n', k)
s = s[:i] + table_g.rstrip('\n') + (s[j:] if j != -1 else '\n')

# section 0.6: replace the harness column, keep the hand-written third column
byprop = {}
for h in hs:
    for pr in h['props']:
        byprop.setdefault(pr, []).append('`%s`' % h['name'])


def fix(m):
    pid = m.group(1)
    if pid not in byprop:
        return m.group(0)
    return '| %s | %s | %s |' % (pid, ', '.join(byprop[pid]), m.group(3))


a = s.index('### 0.6 ')
b = s.index('\n---', a)
sec = re.sub(r'^\| (C\d\d) \| (.*?) \| (.*) \|$', fix, s[a:b], flags=re.M)
s = s[:a] + sec + s[b:]
s = re.sub(r'`harness/` — \d+ harness entries', '`harness/` — %d harness entries' % len(hs), s)
open(p, 'w').write(s)
print('harnesses:', len(hs))
