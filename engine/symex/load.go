package symex

import (
	"fmt"
	"go/token"
	"go/types"
	"os"
	"path/filepath"
	"sort"
	"strings"

	"golang.org/x/tools/go/packages"
	"golang.org/x/tools/go/ssa"
	"golang.org/x/tools/go/ssa/ssautil"
)

type LoadConfig struct {
	RepoDir  string
	Module   string            // module path of the repo
	Patterns []string          // package patterns to load
	Overlay  map[string][]byte // absolute path -> contents
	// InitPkgs lists import paths (beyond the repo's own packages) whose
	// package initialisers are interpreted once at start-up.
	InitPkgs []string
	Known    map[string]bool
}

// DefaultInitPkgs are pure std packages whose init functions are run.
var DefaultInitPkgs = []string{
	"errors", "internal/oserror", "io", "io/fs", "strconv", "bytes", "strings", "bufio",
	"encoding/hex", "unicode/utf8", "context", "sort", "syscall", "internal/bytealg", "math", "math/bits",
	"github.com/spf13/pflag", "unicode", "internal/itoa", "path", "path/filepath", "internal/filepathlite",
	"encoding", "slices", "cmp", "internal/stringslite", "time", "os", "flag", "github.com/github/go-pipe/pipe",
}

func Load(cfg LoadConfig) (*Interp, []*packages.Package, error) {
	pcfg := &packages.Config{
		Mode:    packages.LoadAllSyntax,
		Dir:     cfg.RepoDir,
		Overlay: cfg.Overlay,
		Env: append(os.Environ(), "GOFLAGS=-mod=mod", "GOPROXY=off", "GOSUMDB=off", "GOTOOLCHAIN=local",
			"CGO_ENABLED=0"),
		Tests: false,
	}
	pkgs, err := packages.Load(pcfg, cfg.Patterns...)
	if err != nil {
		return nil, nil, err
	}
	var errs []string
	packages.Visit(pkgs, nil, func(p *packages.Package) {
		for _, e := range p.Errors {
			errs = append(errs, e.Error())
		}
	})
	if len(errs) > 0 {
		if len(errs) > 10 {
			errs = errs[:10]
		}
		return nil, nil, fmt.Errorf("package errors:\n  %s", strings.Join(errs, "\n  "))
	}
	prog, _ := ssautil.AllPackages(pkgs, ssa.InstantiateGenerics|ssa.BareInits)
	prog.Build()

	in := &Interp{
		Prog:       prog,
		globals:    map[*ssa.Global]*Value{},
		inited:     map[*ssa.Package]bool{},
		models:     map[string]*ssa.Function{},
		repoPkgs:   map[*ssa.Package]bool{},
		mergeCache: map[*ssa.Function]*mergeInfo{},
		Known:      cfg.Known,
	}
	if in.Known == nil {
		in.Known = map[string]bool{}
	}
	for _, pkg := range prog.AllPackages() {
		for _, m := range pkg.Members {
			if g, ok := m.(*ssa.Global); ok {
				cell := zero(deref(g.Type()))
				in.globals[g] = &cell
			}
		}
		if strings.HasPrefix(pkg.Pkg.Path(), cfg.Module) {
			in.repoPkgs[pkg] = true
		}
	}
	if fp := prog.ImportedPackage("fmt"); fp != nil {
		if t := fp.Type("wrapError"); t != nil {
			in.fmtWrapErr = t.Type()
		}
	}
	if ep := prog.ImportedPackage("errors"); ep != nil {
		if t := ep.Type("errorString"); t != nil {
			in.errorsErrorString = t.Type()
		}
	}
	// Go-source models: functions named Model_<pkg>_<Func> in any vpmodels package
	for _, pkg := range prog.AllPackages() {
		if !strings.HasSuffix(pkg.Pkg.Path(), "vpmodels") {
			continue
		}
		for name, m := range pkg.Members {
			f, ok := m.(*ssa.Function)
			if !ok || !strings.HasPrefix(name, "Model_") {
				continue
			}
			parts := strings.SplitN(strings.TrimPrefix(name, "Model_"), "_", 2)
			if len(parts) == 2 {
				target := strings.ReplaceAll(parts[0], "SLASH", "/") + "." + parts[1]
				in.models[target] = f
			}
		}
	}
	// run initialisers: whitelisted std first (in dependency order), then repo packages
	want := map[string]bool{}
	for _, p := range DefaultInitPkgs {
		want[p] = true
	}
	for _, p := range cfg.InitPkgs {
		want[p] = true
	}
	order := initOrder(pkgs)
	for _, tp := range order {
		sp := prog.Package(tp)
		if sp == nil {
			continue
		}
		if !(want[tp.Path()] || in.repoPkgs[sp]) {
			continue
		}
		if err := in.runInit(sp); err != nil {
			return nil, nil, fmt.Errorf("init of %s: %v", tp.Path(), err)
		}
	}
	in.protectGlobals()
	return in, pkgs, nil
}

// protectGlobals records every memory cell reachable from the package-level
// variables of the repository's packages. Paths share that memory, so a store
// into it after initialisation (directly or through a pointer) aborts the path.
func (in *Interp) protectGlobals() {
	in.globalCells = map[*Value]bool{}
	var walkVal func(v Value, depth int)
	var walkCell func(c *Value, depth int)
	walkCell = func(c *Value, depth int) {
		if c == nil || in.globalCells[c] || depth > 64 {
			return
		}
		in.globalCells[c] = true
		walkVal(*c, depth+1)
	}
	walkVal = func(v Value, depth int) {
		switch v := v.(type) {
		case Struct:
			for i := range v {
				walkCell(&v[i], depth)
			}
		case Array:
			for i := range v {
				walkCell(&v[i], depth)
			}
		case []Value:
			full := v[:cap(v)]
			for i := range full {
				walkCell(&full[i], depth)
			}
		case *Value:
			walkCell(v, depth)
		case Iface:
			walkVal(v.V, depth+1)
		case *Map:
			if v != nil {
				for _, e := range v.entries {
					walkCell(&e.v, depth)
				}
			}
		case *Closure:
			if v != nil {
				for i := range v.Env {
					walkVal(v.Env[i], depth+1)
				}
			}
		}
	}
	for g, cell := range in.globals {
		if g.Pkg != nil && in.repoPkgs[g.Pkg] && !strings.HasPrefix(g.Name(), "vp") {
			walkCell(cell, 0)
		}
	}
}

// initOrder returns all packages in dependency (post) order.
func initOrder(roots []*packages.Package) []*types.Package {
	var order []*types.Package
	seen := map[*packages.Package]bool{}
	var visit func(p *packages.Package)
	visit = func(p *packages.Package) {
		if seen[p] {
			return
		}
		seen[p] = true
		var names []string
		for n := range p.Imports {
			names = append(names, n)
		}
		sort.Strings(names)
		for _, n := range names {
			visit(p.Imports[n])
		}
		if p.Types != nil {
			order = append(order, p.Types)
		}
	}
	for _, r := range roots {
		visit(r)
	}
	return order
}

func (in *Interp) runInit(pkg *ssa.Package) (err error) {
	initFn := pkg.Func("init")
	if initFn == nil {
		in.inited[pkg] = true
		return nil
	}
	p := in.newPath(nil, 50_000_000)
	p.initPhase = true
	defer func() {
		if r := recover(); r != nil {
			switch r := r.(type) {
			case abort:
				err = fmt.Errorf("abort: %s", r.reason)
			case targetPanic:
				err = fmt.Errorf("panic: %s", r.msg)
			default:
				err = fmt.Errorf("crash: %v", r)
			}
		}
	}()
	in.inited[pkg] = true // reads of own globals are fine during init
	p.call(nil, token.NoPos, initFn, nil)
	return nil
}

// FindFunc locates a package-level function by package path suffix and name.
func (in *Interp) FindFunc(pkgPath, name string) *ssa.Function {
	for _, pkg := range in.Prog.AllPackages() {
		if pkg.Pkg.Path() == pkgPath {
			return pkg.Func(name)
		}
	}
	return nil
}

// ReadOverlayDir maps every harness file under srcRoot (laid out like the
// repository) to its overlay path inside repoDir, and instantiates the
// shared runtime template once per harness package.
func ReadOverlayDir(srcRoot, repoDir string) (map[string][]byte, error) {
	ov := map[string][]byte{}
	pkgName := map[string]string{} // rel dir -> package name
	tmpl, err := os.ReadFile(filepath.Join(srcRoot, "_rt", "zz_vp_rt.go.tmpl"))
	if err != nil {
		return nil, err
	}
	err = filepath.Walk(srcRoot, func(path string, info os.FileInfo, err error) error {
		if err != nil {
			return err
		}
		if info.IsDir() {
			if strings.HasPrefix(info.Name(), "_") {
				return filepath.SkipDir
			}
			return nil
		}
		if !strings.HasSuffix(path, ".go") {
			return nil
		}
		rel, _ := filepath.Rel(srcRoot, path)
		b, err := os.ReadFile(path)
		if err != nil {
			return err
		}
		ov[filepath.Join(repoDir, rel)] = b
		for _, line := range strings.Split(string(b), "\n") {
			if strings.HasPrefix(line, "package ") {
				pkgName[filepath.Dir(rel)] = strings.TrimSpace(strings.TrimPrefix(line, "package "))
				break
			}
		}
		return nil
	})
	for dir, name := range pkgName {
		ov[filepath.Join(repoDir, dir, "zz_vp_rt.go")] = []byte(strings.Replace(string(tmpl), "package PKGNAME", "package "+name, 1))
	}
	return ov, err
}

// hasFunction reports whether the program contains a function or method with this full name.
func (in *Interp) hasFunction(name string) bool {
	in.mergeMu.Lock()
	defer in.mergeMu.Unlock()
	if in.fnNames == nil {
		in.fnNames = map[string]bool{}
		for fn := range ssautil.AllFunctions(in.Prog) {
			in.fnNames[fn.String()] = true
		}
	}
	return in.fnNames[name]
}
