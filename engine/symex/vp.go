package symex

import (
	"fmt"
	"go/token"
	"math/big"
	"regexp"
	"strings"

	"golang.org/x/tools/go/ssa"

	"verif/engine/smt"
)

// vpIntrinsic implements the harness vocabulary (DESIGN §2.2).
func (p *Path) vpIntrinsic(caller *frame, fn *ssa.Function, name string, args []Value) Value {
	switch name {
	case "vp_U64":
		if p.intMode {
			v := p.fresh(p.strArg(args[0], "name"), smt.IntS, "int")
			p.assumeOrStop(smt.And(smt.ILe(smt.ConstIntU(0), v), smt.ILt(v, pow2(64))))
			return v
		}
		return p.fresh(p.strArg(args[0], "name"), smt.BV64, "u64")
	case "vp_U32":
		if p.intMode {
			v := p.fresh(p.strArg(args[0], "name"), smt.IntS, "int")
			p.assumeOrStop(smt.And(smt.ILe(smt.ConstIntU(0), v), smt.ILt(v, pow2(32))))
			return v
		}
		return p.fresh(p.strArg(args[0], "name"), smt.BV32, "u32")
	case "vp_U16":
		return p.fresh(p.strArg(args[0], "name"), smt.BV(16), "u16")
	case "vp_U8":
		return p.fresh(p.strArg(args[0], "name"), smt.BV8, "u8")
	case "vp_I64":
		return p.fresh(p.strArg(args[0], "name"), smt.BV64, "i64")
	case "vp_Bool":
		return p.fresh(p.strArg(args[0], "name"), smt.Bool, "bool")
	case "vp_F64":
		return p.fresh(p.strArg(args[0], "name"), smt.FP64, "f64")
	case "vp_Int":
		// vp_Int(name, lo, hi): a free int with lo <= v <= hi
		v := p.fresh(p.strArg(args[0], "name"), smt.BV64, "i64")
		lo, hi := args[1].(*smt.Term), args[2].(*smt.Term)
		p.assumeOrStop(smt.And(smt.SLe(lo, v), smt.SLe(v, hi)))
		return v
	case "vp_Bytes":
		n := p.intArg(args[1], "vp_Bytes length")
		nm := p.strArg(args[0], "name")
		sl := make([]Value, n)
		for i := range sl {
			sl[i] = p.fresh(nm, smt.BV8, "u8")
		}
		return sl
	case "vp_Str":
		n := p.intArg(args[1], "vp_Str length")
		nm := p.strArg(args[0], "name")
		ts := make([]*smt.Term, n)
		for i := range ts {
			ts[i] = p.fresh(nm, smt.BV8, "u8")
		}
		if n == 0 {
			return mkStr("")
		}
		return Str{sym: ts}
	case "vp_OpaqueStr":
		return Str{opq: args[1].(*smt.Term)}
	case "vp_Choice":
		return intConst(p.choice(p.strArg(args[0], "name"), int(p.intArg(args[1], "k"))))
	case "vp_Assume":
		p.assumeOrStop(boolArg(args[0]))
		return nil
	case "vp_Assert":
		p.assert(boolArg(args[0]), p.strArg(args[1], "label"))
		return nil
	case "vp_Reach":
		p.res.Reach = append(p.res.Reach, p.strArg(args[0], "label"))
		return nil
	case "vp_KnownRegion":
		// vp_KnownRegion(id, c): marks the region c as belonging to known finding id.
		id := p.strArg(args[0], "id")
		if p.in.Known[id] {
			p.known[id] = boolArg(args[1])
		}
		return args[1]
	case "vp_KnownRegionEnd":
		delete(p.known, p.strArg(args[0], "id"))
		return nil
	case "vp_And":
		return smt.And(boolArg(args[0]), boolArg(args[1]))
	case "vp_Or":
		return smt.Or(boolArg(args[0]), boolArg(args[1]))
	case "vp_Imp":
		return smt.Implies(boolArg(args[0]), boolArg(args[1]))
	case "vp_IteU64", "vp_IteU32", "vp_IteInt", "vp_IteU8":
		return smt.Ite(boolArg(args[0]), args[1].(*smt.Term), args[2].(*smt.Term))
	case "vp_IteBool":
		return smt.Ite(boolArg(args[0]), args[1].(*smt.Term), args[2].(*smt.Term))
	case "vp_Native":
		return smt.False
	case "vp_Param":
		nm := p.strArg(args[0], "param name")
		v, ok := p.params[nm]
		if !ok {
			p.abortf("vp_Param(%q): no value configured for this tier", nm)
		}
		return intConst(v)
	case "vp_Calls":
		// number of times the named function was entered on this path; -1 if the
		// program has no such function (e.g. it was renamed: the caller must not
		// turn that into a verdict)
		want := p.strArg(args[0], "function name")
		n := 0
		for f, c := range p.calls {
			if f.String() == want {
				n += c
			}
		}
		if n == 0 && !p.in.hasFunction(want) {
			return intConst(-1)
		}
		return intConst(int64(n))
	case "vp_Catch":
		// runs f, returns whether it panicked
		var panicked bool
		d0, f0 := p.depth, len(p.fnStack)
		func() {
			defer func() {
				if r := recover(); r != nil {
					if tp, ok := r.(targetPanic); ok {
						panicked = true
						p.lastPanic = tp.msg
						p.depth, p.fnStack = d0, p.fnStack[:f0]
						return
					}
					panic(r)
				}
			}()
			p.call(caller, token.NoPos, args[0], nil)
		}()
		if panicked {
			// mutexes held by the unwound frames stay as they are, as in Go
		}
		return smt.ConstBool(panicked)
	case "vp_LastPanic":
		return mkStr(p.lastPanic)
	case "vp_Observe":
		p.res.Observed[p.strArg(args[0], "label")] = debugString(args[1])
		return nil
	case "vp_LastJSON":
		if p.lastJSON == nil {
			return Iface{}
		}
		return p.lastJSON
	case "vp_JSONCalls":
		return intConst(int64(p.jsonCalls))
	case "vp_IsTok":
		return smt.ConstBool(args[0].(Str).tok != nil)
	case "vp_TokFormat":
		if t := args[0].(Str).tok; t != nil {
			return mkStr(t.Format)
		}
		return mkStr("")
	case "vp_TokU64":
		t := args[0].(Str).tok
		if t == nil || t.Arg.Sort.K != smt.SBV {
			p.abortf("vp_TokU64: not an integer format token")
		}
		return smt.Resize(t.Arg, 64, t.Signed)
	case "vp_TokF64":
		t := args[0].(Str).tok
		if t == nil || t.Arg.Sort.K != smt.SFP {
			p.abortf("vp_TokF64: not a float format token")
		}
		return t.Arg
	case "vp_RegexpCompiles":
		_, err := compileRx(p.strArg(args[0], "pattern"))
		return smt.ConstBool(err == nil)
	case "vp_RegexpFullMatch":
		// reference semantics: pattern P matches ALL of s
		pat := p.strArg(args[0], "pattern")
		if cs := args[1].(Str); cs.isConcrete() {
			re, err := regexp.Compile("^(?:" + pat + ")$")
			if err != nil {
				p.abortf("vp_RegexpFullMatch: pattern does not compile: %v", err)
			}
			return smt.ConstBool(re.MatchString(cs.c))
		}
		rx, err := compileRx("(?:" + pat + ")")
		if err != nil {
			p.abortf("vp_RegexpFullMatch: pattern does not compile: %v", err)
		}
		s := args[1].(Str)
		return p.rxMatch(rx, s.bytesOrAbort(p), true, true)
	case "vp_ZU":
		return Struct{p.toInt(args[0])}
	case "vp_ZPow10":
		return Struct{smt.ConstInt(bigPow10(int(p.intArg(args[0], "exponent"))))}
	case "vp_ZAdd":
		return Struct{smt.IAdd(zOf(args[0]), zOf(args[1]))}
	case "vp_ZSub":
		return Struct{smt.ISub(zOf(args[0]), zOf(args[1]))}
	case "vp_ZMul":
		a, b := zOf(args[0]), zOf(args[1])
		if !a.IsConst() && !b.IsConst() {
			p.abortf("vp_ZMul: symbolic-by-symbolic multiplication (non-linear)")
		}
		return Struct{smt.IMul(a, b)}
	case "vp_ZAbs":
		return Struct{iabs(zOf(args[0]))}
	case "vp_ZLe":
		return smt.ILe(zOf(args[0]), zOf(args[1]))
	case "vp_ZLt":
		return smt.ILt(zOf(args[0]), zOf(args[1]))
	case "vp_ZEq":
		return smt.Eq(zOf(args[0]), zOf(args[1]))
	case "vp_TokDecimals":
		t := args[0].(Str).tok
		if t == nil {
			cs := p.strArg(args[0], "numeral")
			if i := strings.IndexByte(cs, '.'); i >= 0 {
				return intConst(int64(len(cs) - i - 1))
			}
			return intConst(0)
		}
		switch t.Format {
		case "%d", "%.0f":
			return intConst(0)
		case "%.1f":
			return intConst(1)
		case "%.2f":
			return intConst(2)
		case "%d.%d":
			// the number of digits %d prints for the second operand (fork over the digit count)
			return intConst(int64(p.decimalDigits(p.toInt(t.Arg2))))
		}
		p.abortf("vp_TokDecimals: unsupported format %q", t.Format)
	case "vp_TokScaled":
		// the integer the numeral denotes after removing the decimal point
		t := args[0].(Str).tok
		if t == nil {
			cs := strings.ReplaceAll(p.strArg(args[0], "numeral"), ".", "")
			bi, ok := new(big.Int).SetString(cs, 10)
			if !ok {
				p.abortf("vp_TokScaled: %q is not a numeral", cs)
			}
			return Struct{smt.ConstInt(bi)}
		}
		switch t.Format {
		case "%d":
			return Struct{p.toInt(t.Arg)}
		case "%d.%d":
			frac := p.toInt(t.Arg2)
			nd := p.decimalDigits(frac)
			return Struct{smt.IAdd(smt.IMul(p.toInt(t.Arg), smt.ConstInt(bigPow10(nd))), frac)}
		case "%.0f", "%.1f", "%.2f":
			if t.X == nil {
				p.abortf("vp_TokScaled: float token outside the Int back end")
			}
			return Struct{p.xfScaled(*t.X, int(t.Format[2]-'0'))}
		}
		p.abortf("vp_TokScaled: unsupported format %q", t.Format)
	case "vp_LazyGoroutines":
		// choose the schedule: false = run at spawn (default), true = run when the spawner blocks or yields
		p.lazyGo = boolArg(args[0]).IsTrue()
		return nil
	case "vp_Yield":
		// the caller would block waiting for progress of other goroutines: let them run
		for len(p.pendingGo) > 0 {
			p.runPendingOne()
		}
		return nil
	case "vp_BlockForever":
		panic(targetPanic{msg: "blocks forever: " + p.strArg(args[0], "reason")})
	case "vp_ExitCode":
		// the exit status that (*os.ProcessState).ExitCode reports from now on
		p.exitCode = int(p.intArg(args[0], "exit code"))
		return nil
	case "vp_ChanSlack":
		// models consumers that drain later: every channel accepts n more sends than its capacity
		p.chanSlack = int(p.intArg(args[0], "slack"))
		return nil
	case "vp_Inconclusive":
		p.abortf("harness: %s", p.strArg(args[0], "reason"))
		return nil
	case "vp_Stub":
		// vp_Stub("full name of real function", replacement)
		target := p.strArg(args[0], "target")
		switch f := args[1].(type) {
		case *ssa.Function, *Closure:
			p.stubs[target] = f
		case Iface:
			p.stubs[target] = f.V
		default:
			p.abortf("vp_Stub: replacement must be a function, got %T", f)
		}
		return nil
	case "vp_Unstub":
		delete(p.stubs, p.strArg(args[0], "target"))
		return nil
	case "vp_AssumeASCII":
		s := args[0].(Str)
		if s.sym != nil {
			for _, b := range s.sym {
				p.assumeOrStop(smt.ULt(b, smt.ConstBV(8, 0x80)))
			}
		}
		return nil
	case "vp_Fail":
		p.assert(smt.False, p.strArg(args[0], "label"))
		return nil
	}
	p.abortf("unknown harness intrinsic %s", name)
	return nil
}

// assumeOrStop adds c to the path condition; if that makes the path
// infeasible the path ends silently.
func (p *Path) assumeOrStop(c *smt.Term) {
	if v, ok := p.decided(c); ok {
		if !v {
			panic(stopPath{"assumption false"})
		}
		return
	}
	if p.replaying() {
		// feasibility was established when this prefix was produced, but the
		// assumption may lie beyond the replayed decisions; check anyway.
	}
	r := p.check(c)
	p.sess.PopCheck()
	switch r {
	case smt.Unsat:
		panic(stopPath{"assumption infeasible"})
	case smt.Unknown:
		p.abortf("solver unknown on assumption")
	}
	p.assume(c)
}

var _ = fmt.Sprint

func zOf(v Value) *smt.Term { return v.(Struct)[0].(*smt.Term) }
