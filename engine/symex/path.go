package symex

import (
	"fmt"
	"sort"
	"strings"

	"golang.org/x/tools/go/ssa"

	"verif/engine/smt"
)

// abort is raised (as a Go panic) when the engine cannot continue a path
// soundly; the path is reported INCONCLUSIVE.
type abort struct{ reason string }

// targetPanic is a panic of the interpreted program.
type targetPanic struct {
	v   Value
	msg string
}

// stopPath ends a path early without error (vp_Assume(false) etc.).
type stopPath struct{ why string }

type InputRec struct {
	Key  string `json:"key"`
	Kind string `json:"kind"` // u8,u32,u64,i64,bool,f64,choice,bytes-elt
	Sort smt.Sort
}

type AssertRec struct {
	Label   string            `json:"label"`
	Verdict string            `json:"verdict"` // unsat|trivial|sat|unknown
	Ms      float64           `json:"ms"`
	Model   map[string]string `json:"model,omitempty"`
	Known   string            `json:"known,omitempty"` // known-finding id when inside a listed region
	Where   string            `json:"where,omitempty"`
}

type PathResult struct {
	Decisions  []int64
	Outcome    string // end | panic:<msg> | abort:<reason> | stop:<why>
	Asserts    []AssertRec
	Reach      []string
	Steps      int
	Queries    int
	Inputs     []InputRec
	Funcs      map[string]bool
	Forks      [][]int64
	Observed   map[string]string
	choiceVals map[string]int64
	EndModel   map[string]string
}

type Path struct {
	in         *Interp
	sess       *smt.Session
	prefix     []int64
	cursor     int
	decisions  []int64
	pcSet      map[*smt.Term]bool
	pcList     []*smt.Term
	pcNeg      map[*smt.Term]bool
	pcNames    map[string]bool
	pcNegNames map[string]bool
	pcEntries  []pcEntry
	varIdx     map[string]int
	varMemo    map[*smt.Term][]int
	uf         []int
	occ        map[string]int
	inputs     []InputRec
	steps      int
	maxSteps   int
	calls      map[*ssa.Function]int
	forks      [][]int64
	res        *PathResult
	stubs      map[string]Value
	known      map[string]*smt.Term // active known-finding regions: id -> predicate
	catchDepth int
	depth      int
	initPhase  bool
	queries0   int
	lastJSON   Value
	jsonCalls  int
	lastPanic  string
	pinned     map[*smt.Term]*smt.Term
	pinnedVars map[string]*smt.Term
	pinMemo    map[*smt.Term]*smt.Term
	pinMemoGen int
	fnStack    []*ssa.Function
	intMode    bool
	wgCount    map[*Value]int // sync.WaitGroup counters (sequential model)
	knownHit   []*smt.Term    // predicates of known-finding regions in which an assertion failed
	chanSlack  int
	exitCode   int
	lazyGo     bool
	pendingGo  []func()
	merged     int
	params     map[string]int64
}

func (p *Path) abortf(format string, args ...interface{}) {
	where := ""
	if n := len(p.fnStack); n > 0 {
		where = " [in " + p.fnStack[n-1].String()
		if n > 1 {
			where += " <- " + p.fnStack[n-2].String()
		}
		where += "]"
	}
	panic(abort{fmt.Sprintf(format, args...) + where})
}

func (p *Path) record(d int64) { p.decisions = append(p.decisions, d) }

func (p *Path) replaying() bool { return p.cursor < len(p.prefix) }

func (p *Path) assume(c *smt.Term) {
	if c.IsConst() {
		return
	}
	if p.pcSet[c] {
		return
	}
	p.pcSet[c] = true
	p.pcList = append(p.pcList, c)
	if c.Op == smt.OpNot {
		p.pcNeg[c.Args[0]] = true
	}
	if c.Op == smt.OpAnd {
		// make conjuncts available to the syntactic shortcut
		for _, a := range c.Args {
			p.pcSet[a] = true
		}
	}
	vs := p.termVars(c)
	for i := 1; i < len(vs); i++ {
		a, b := p.find(vs[0]), p.find(vs[i])
		if a != b {
			p.uf[b] = a
		}
	}
	p.pcEntries = append(p.pcEntries, pcEntry{c, vs})
	n := p.sess.Name(c)
	p.pcNames[n] = true
	if x, ok := p.sess.P.NegOf[n]; ok {
		p.pcNegNames[x] = true
	}
}

// known tells whether c is syntactically decided by the path condition.
func (p *Path) decided(c *smt.Term) (bool, bool) {
	if c.IsConst() {
		return c.C == 1, true
	}
	if len(p.pinned) > 0 {
		if r := p.resolve(c); r.IsConst() {
			return r.C == 1, true
		}
	}
	if p.pcSet[c] {
		return true, true
	}
	if c.Op == smt.OpNot && p.pcSet[c.Args[0]] {
		return false, true
	}
	if p.pcNeg[c] {
		return false, true
	}
	if p.sess != nil {
		n := p.sess.Name(c)
		if p.pcNames[n] {
			return true, true
		}
		if p.pcNegNames[n] {
			return false, true
		}
		if x, ok := p.sess.P.NegOf[n]; ok && p.pcNames[x] {
			return false, true
		}
	}
	return false, false
}

// termVars returns the indices of the solver variables occurring in t.
func (p *Path) termVars(t *smt.Term) []int {
	if vs, ok := p.varMemo[t]; ok {
		return vs
	}
	var vs []int
	switch t.Op {
	case smt.OpConst:
	case smt.OpVar:
		i, ok := p.varIdx[t.Name]
		if !ok {
			i = len(p.uf)
			p.varIdx[t.Name] = i
			p.uf = append(p.uf, i)
		}
		vs = []int{i}
	default:
		seen := map[int]bool{}
		for _, a := range t.Args {
			for _, v := range p.termVars(a) {
				if !seen[v] {
					seen[v] = true
					vs = append(vs, v)
				}
			}
		}
	}
	p.varMemo[t] = vs
	return vs
}

func (p *Path) find(i int) int {
	for p.uf[i] != i {
		p.uf[i] = p.uf[p.uf[i]]
		i = p.uf[i]
	}
	return i
}

// slice returns the path-condition conjuncts that share (transitively) a
// variable with ts. Since the path condition is kept satisfiable, the other
// conjuncts cannot influence the answer (constraint independence).
func (p *Path) pcSlice(ts ...*smt.Term) []*smt.Term {
	roots := map[int]bool{}
	for _, t := range ts {
		if t == nil {
			continue
		}
		for _, v := range p.termVars(t) {
			roots[p.find(v)] = true
		}
	}
	var out []*smt.Term
	for _, e := range p.pcEntries {
		if len(e.vars) > 0 && roots[p.find(e.vars[0])] {
			out = append(out, e.t)
		}
	}
	return out
}

// check asks whether PC ∧ extra is satisfiable, sending only the relevant slice.
func (p *Path) check(extra *smt.Term) smt.Result {
	if extra == nil || p.in.NoSlice {
		return p.checkFull(extra)
	}
	cs := p.pcSlice(extra)
	return p.sess.Check(append(cs, extra)...)
}

// checkFull sends the whole path condition (used when a complete model is needed).
func (p *Path) checkFull(extra *smt.Term) smt.Result {
	cs := make([]*smt.Term, 0, len(p.pcEntries)+1)
	for _, e := range p.pcEntries {
		cs = append(cs, e.t)
	}
	if extra != nil {
		cs = append(cs, extra)
	}
	return p.sess.Check(cs...)
}

type pcEntry struct {
	t    *smt.Term
	vars []int
}

// branch decides a symbolic condition, forking when both sides are feasible.
func (p *Path) branch(c *smt.Term) bool {
	if v, ok := p.decided(c); ok {
		return v
	}
	if p.sess == nil {
		p.abortf("symbolic branch during concrete phase")
	}
	var choice bool
	if p.replaying() {
		choice = p.prefix[p.cursor] != 0
		p.cursor++
	} else {
		rT := p.check(c)
		p.sess.PopCheck()
		switch rT {
		case smt.Unknown:
			p.abortf("solver unknown on branch condition")
		case smt.Unsat:
			choice = false
		case smt.Sat:
			rF := p.check(smt.Not(c))
			p.sess.PopCheck()
			switch rF {
			case smt.Unknown:
				p.abortf("solver unknown on branch condition (neg)")
			case smt.Unsat:
				choice = true
			case smt.Sat:
				choice = true
				alt := append(append([]int64{}, p.decisions...), 0)
				p.forks = append(p.forks, alt)
			}
		}
	}
	if choice {
		p.record(1)
		p.assume(c)
	} else {
		p.record(0)
		p.assume(smt.Not(c))
	}
	return choice
}

// concretize turns an integer term into a concrete value, forking over all
// feasible values (model-and-block). sx tells how to read the value.
// resolve substitutes terms that an earlier concretisation pinned to a
// constant, folding t to a constant where possible (no solver involved).
func (p *Path) resolve(t *smt.Term) *smt.Term {
	if t.IsConst() || len(p.pinned) == 0 {
		return t
	}
	if p.pinMemoGen != len(p.pinned) {
		p.pinMemo = map[*smt.Term]*smt.Term{}
		p.pinMemoGen = len(p.pinned)
	}
	return smt.Subst(t, func(x *smt.Term) *smt.Term {
		if c, ok := p.pinned[x]; ok {
			return c
		}
		if x.Op == smt.OpVar {
			if c, ok := p.pinnedVars[x.Name]; ok {
				return c
			}
		}
		return nil
	}, p.pinMemo)
}

func (p *Path) concretize(t *smt.Term, signed bool, what string) int64 {
	orig := t
	t = p.resolve(t)
	rd := func(c uint64) int64 {
		if signed {
			w := t.Sort.W
			if w < 64 {
				sh := uint(64 - w)
				return int64(c<<sh) >> sh
			}
		}
		return int64(c)
	}
	if t.IsConst() {
		return rd(t.C)
	}
	if p.sess == nil {
		p.abortf("symbolic value needs concretisation during concrete phase (%s)", what)
	}
	var v int64
	if p.replaying() {
		v = p.prefix[p.cursor]
		p.cursor++
	} else {
		const capN = 130
		p.sess.Name(t)
		var vals []int64
		block := smt.True
		for {
			r := p.check(smt.And(block, smt.Eq(t, t)))
			if block.IsTrue() {
				p.sess.PopCheck()
				r = p.sess.Check(append(p.pcSlice(t), smt.True)...)
			}
			if r == smt.Unknown {
				p.sess.PopCheck()
				p.abortf("solver unknown while concretising %s", what)
			}
			if r == smt.Unsat {
				p.sess.PopCheck()
				break
			}
			mv := p.sess.Eval(t)
			p.sess.PopCheck()
			vals = append(vals, rd(mv.U))
			block = smt.And(block, smt.Not(smt.Eq(t, smt.ConstBV(t.Sort.W, mv.U))))
			if len(vals) > capN {
				p.abortf("more than %d feasible values while concretising %s", capN, what)
			}
		}
		if len(vals) == 0 {
			p.abortf("path condition unsatisfiable while concretising %s", what)
		}
		sort.Slice(vals, func(i, j int) bool { return vals[i] < vals[j] })
		v = vals[0]
		for _, o := range vals[1:] {
			alt := append(append([]int64{}, p.decisions...), o)
			p.forks = append(p.forks, alt)
		}
	}
	p.record(v)
	cv := smt.ConstBV(t.Sort.W, uint64(v))
	p.assume(smt.Eq(t, cv))
	if p.pinned == nil {
		p.pinned = map[*smt.Term]*smt.Term{}
		p.pinnedVars = map[string]*smt.Term{}
	}
	p.pinned[t] = cv
	p.pinned[orig] = cv
	if t.Op == smt.OpVar {
		p.pinnedVars[t.Name] = cv
	}
	return v
}

// choice forks over 0..k-1 without consulting the solver.
func (p *Path) choice(name string, k int) int64 {
	if k <= 0 {
		p.abortf("vp_Choice(%s): k=%d", name, k)
	}
	var v int64
	if p.replaying() {
		v = p.prefix[p.cursor]
		p.cursor++
	} else {
		for o := 1; o < k; o++ {
			alt := append(append([]int64{}, p.decisions...), int64(o))
			p.forks = append(p.forks, alt)
		}
	}
	p.record(v)
	key := p.key(name)
	p.inputs = append(p.inputs, InputRec{Key: key, Kind: "choice"})
	p.res.choiceVals[key] = v
	return v
}

func (p *Path) key(name string) string {
	n := p.occ[name]
	p.occ[name] = n + 1
	return fmt.Sprintf("%s#%d", name, n)
}

func (p *Path) fresh(name string, s smt.Sort, kind string) *smt.Term {
	key := p.key(name)
	p.inputs = append(p.inputs, InputRec{Key: key, Kind: kind, Sort: s})
	return smt.Var(key, s)
}

// mustHold forks on an implicit run-time check; the failing side raises a
// target panic.
func (p *Path) mustHold(c *smt.Term, msg string) {
	if !p.branch(c) {
		panic(targetPanic{msg: msg})
	}
}

func (p *Path) model() map[string]string {
	m := p.sess.Model()
	out := map[string]string{}
	for k, v := range m {
		out[k] = v.String()
	}
	for k, v := range p.res.choiceVals {
		out[k] = fmt.Sprintf("%d", v)
	}
	return out
}

func (p *Path) where(fr *frame) string {
	if fr == nil {
		return ""
	}
	return fr.fn.String()
}

// assert discharges one obligation under the current path condition.
func (p *Path) assert(c *smt.Term, label string) {
	rec := AssertRec{Label: label}
	q0 := p.sess.Queries
	t0 := p.sess.Time
	// split on active known-finding regions
	for id, pred := range p.known {
		if v, ok := p.decided(pred); ok && !v {
			continue
		}
		// inside the region: check separately and mark
		r := p.check(smt.And(pred, smt.Not(c)))
		if r == smt.Sat {
			p.sess.PopCheck()
			p.checkFull(smt.And(pred, smt.Not(c)))
			krec := AssertRec{Label: label, Verdict: "sat", Known: id, Model: p.model()}
			p.knownHit = append(p.knownHit, pred)
			p.sess.PopCheck()
			p.res.Asserts = append(p.res.Asserts, krec)
			// outside the region the assertion is still checked
			c = smt.Or(pred, c)
		} else {
			p.sess.PopCheck()
			if r == smt.Unknown {
				c = smt.Or(pred, c)
				p.knownHit = append(p.knownHit, pred)
				p.res.Asserts = append(p.res.Asserts, AssertRec{Label: label, Verdict: "unknown", Known: id})
			}
		}
	}
	if v, ok := p.decided(c); ok && v {
		rec.Verdict = "trivial"
	} else {
		r := p.check(smt.Not(c))
		switch r {
		case smt.Unsat:
			rec.Verdict = "unsat"
		case smt.Sat:
			rec.Verdict = "sat"
			p.sess.PopCheck()
			if p.checkFull(smt.Not(c)) == smt.Sat {
				rec.Model = p.model()
			} else {
				p.sess.PopCheck()
				p.check(smt.Not(c))
				rec.Model = p.model()
			}
		default:
			rec.Verdict = "unknown"
		}
		p.sess.PopCheck()
	}
	rec.Ms = float64((p.sess.Time - t0).Microseconds()) / 1000
	_ = q0
	p.res.Asserts = append(p.res.Asserts, rec)
	if rec.Verdict != "unknown" {
		// continue under the assumption that the assertion holds; if it is
		// violated everywhere the path condition becomes unsat and we stop.
		if v, ok := p.decided(c); ok && !v {
			panic(stopPath{"assertion false on the whole path"})
		}
		if rec.Verdict == "sat" {
			r := p.check(c)
			p.sess.PopCheck()
			if r != smt.Sat {
				panic(stopPath{"assertion false on the whole path"})
			}
		}
		p.assume(c)
	}
}

func describeDecisions(d []int64) string {
	parts := make([]string, len(d))
	for i, v := range d {
		parts[i] = fmt.Sprint(v)
	}
	return strings.Join(parts, ",")
}
