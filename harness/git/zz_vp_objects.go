package git

import "strings"

// H-header / H-commit-structured / H-tag-structured / H-listing (C16, C02, C05).

// VPH_headerTotal: ParseCommit and ParseTag on arbitrary bytes never panic and
// terminate; a success implies the tree/object line really is a header line.
func VPH_headerTotal() {
	n := vp_Param("n")
	data := vp_Bytes("d", n)
	var c *Commit
	var t *Tag
	var err1, err2 error
	p1 := vp_Catch(func() { c, err1 = ParseCommit(OID{}, data) })
	vp_Assert(!p1, "ParseCommit never panics")
	p2 := vp_Catch(func() { t, err2 = ParseTag(OID{}, data) })
	vp_Assert(!p2, "ParseTag never panics")
	// n bytes cannot hold "tree <40 hex>\n" when n < 46
	if n < 46 {
		vp_Assert(p1 || err1 != nil, "short input cannot be a commit")
		vp_Assert(p2 || err2 != nil, "short input cannot be a tag")
	}
	_, _ = c, t
	vp_Reach("end")
}

const vpHexDigits = "0123456789abcdef"

// vpHexID returns 40 hex characters of an id whose first byte is free and
// whose remaining bytes are derived from seed (concrete), so ids are distinct
// without 20 symbolic bytes each.
func vpHexID(seed byte) string {
	var sb strings.Builder
	for i := 0; i < 20; i++ {
		b := seed + byte(i)*7
		sb.WriteByte(vpHexDigits[b>>4])
		sb.WriteByte(vpHexDigits[b&15])
	}
	return sb.String()
}

func vpOIDOf(hex string) OID {
	o, err := NewOID(hex)
	if err != nil {
		panic("bad test oid")
	}
	return o
}

// vpFreeText returns n free bytes none of which is LF.
func vpFreeText(name string, n int) string {
	b := vp_Bytes(name, n)
	for _, c := range b {
		vp_Assume(c != '\n')
	}
	return string(b)
}

// VPH_commitStructured: a well-formed commit = tree line, P parent lines,
// author/committer, an optional extra header (free key/value bytes) with C
// continuation lines (free bytes, as in gpgsig/mergetag), blank line, and a
// message that imitates headers. The parser must return exactly the
// generated tree and parents.
func VPH_commitStructured() {
	nParents := vp_Choice("parents", vp_Param("maxparents")+1)
	nCont := vp_Choice("cont", vp_Param("maxcont")+1)
	extra := vp_Choice("extra", 2) == 1
	withMsg := vp_Choice("msg", 3) // 0: no blank line/message, 1: blank line + message, 2: blank line only

	treeHex := vpHexID(0x11)
	var sb strings.Builder
	sb.WriteString("tree " + treeHex + "\n")
	var parents []string
	for i := 0; i < nParents; i++ {
		h := vpHexID(byte(0x30 + i))
		if i > 0 && vp_Choice("repeat-parent", 2) == 1 {
			h = parents[0] // git keeps a parent that is listed twice (rev-list --parents shows both)
		}
		parents = append(parents, h)
		sb.WriteString("parent " + h + "\n")
	}
	sb.WriteString("author A <a@b> 1 +0000\ncommitter C <c@d> 2 +0000\n")
	if extra {
		key := vpFreeText("key", 2)
		for i := 0; i < len(key); i++ {
			vp_Assume(key[i] != ' ')
		}
		vp_Assume(key != "tr") // cannot spell tree/parent in 2 bytes anyway
		val := vpFreeText("val", 2)
		sb.WriteString(key + " " + val + "\n")
		for i := 0; i < nCont; i++ {
			// continuation line: SP + free bytes; may look like " parent <id>"
			if vp_Choice("contkind", 2) == 0 {
				sb.WriteString(" " + vpFreeText("cont", 2) + "\n")
			} else {
				sb.WriteString(" parent " + vpHexID(0x77) + "\n")
			}
		}
	}
	switch withMsg {
	case 1:
		sb.WriteString("\n")
		sb.WriteString(vpFreeText("m1", 1))
		sb.WriteString("\nparent " + vpHexID(0x55) + "\ntree " + vpHexID(0x56) + "\n")
		sb.WriteString(string(vp_Bytes("m2", 1)))
	case 2:
		sb.WriteString("\n")
	}
	data := []byte(sb.String())
	c, err := ParseCommit(OID{}, data)
	vp_Assert(err == nil, "well-formed commit parses")
	if err != nil {
		return
	}
	vp_Assert(uint64(c.Size) == uint64(len(data)), "Size=len(data)")
	vp_Assert(c.Tree == vpOIDOf(treeHex), "tree is the header's tree")
	vp_Assert(len(c.Parents) == nParents, "parent count = number of parent header lines")
	for i := 0; i < nParents && i < len(c.Parents); i++ {
		vp_Assert(c.Parents[i] == vpOIDOf(parents[i]), "parents in order")
	}
	vp_Reach("end")
}

func VPH_tagStructured() {
	nCont := vp_Choice("cont", vp_Param("maxcont")+1)
	kind := [4]string{"commit", "tree", "blob", "tag"}[vp_Choice("kind", 4)]
	withMsg := vp_Choice("msg", 3)
	objHex := vpHexID(0x21)
	var sb strings.Builder
	sb.WriteString("object " + objHex + "\ntype " + kind + "\ntag " + vpFreeText("tagname", 2) + "\ntagger T <t@u> 3 +0000\n")
	if withMsg == 1 {
		sb.WriteString("\n")
		sb.WriteString(vpFreeText("m1", 1))
		sb.WriteString("\nobject " + vpHexID(0x66) + "\ntype blob\n")
		for i := 0; i < nCont; i++ {
			sb.WriteString(" " + vpFreeText("sig", 2) + "\n")
		}
	} else if withMsg == 2 {
		sb.WriteString("\n")
	}
	data := []byte(sb.String())
	t, err := ParseTag(OID{}, data)
	vp_Assert(err == nil, "well-formed tag parses")
	if err != nil {
		return
	}
	vp_Assert(uint64(t.Size) == uint64(len(data)), "Size=len(data)")
	vp_Assert(t.Referent == vpOIDOf(objHex), "referent is the header's object")
	vp_Assert(string(t.ReferentType) == kind, "referent type is the header's type")
	vp_Reach("end")
}

// VPH_oddHeaders (C16): objects git accepts whose header block contains a line
// without a space (a bare keyword such as "x-reviewed") - before the other
// headers, between them, or as the last header line. The parsers may refuse
// such an object, but when they return a result it holds exactly the
// tree/parent (object/type) lines of the header block: the message, which
// imitates header lines, never contributes.
func VPH_oddHeaders() {
	kw := vpFreeText("keyword", 2)
	for i := 0; i < len(kw); i++ {
		vp_Assume(kw[i] != ' ')
	}
	where := vp_Choice("where", 2) // 0: between the headers, 1: last header line
	// the message imitates header lines; duplicates of tree/object/type would make a parser that
	// wanders into the message fail loudly, so there is also a variant with parent lines only
	msg := "\nfirst line\nparent " + vpHexID(0x55) + "\nlast line\n"
	if vp_Choice("message", 2) == 1 {
		msg = "\nfirst line\nparent " + vpHexID(0x55) + "\ntree " + vpHexID(0x56) + "\nobject " + vpHexID(0x57) + "\ntype blob\nlast line\n"
	}
	if vp_Choice("object", 2) == 0 {
		treeHex, parentHex := vpHexID(0x11), vpHexID(0x30)
		s := "tree " + treeHex + "\nparent " + parentHex + "\n"
		if where == 0 {
			s += kw + "\nauthor A <a@b> 1 +0000\ncommitter C <c@d> 2 +0000\n"
		} else {
			s += "author A <a@b> 1 +0000\ncommitter C <c@d> 2 +0000\n" + kw + "\n"
		}
		var c *Commit
		var err error
		panicked := vp_Catch(func() { c, err = ParseCommit(OID{}, []byte(s+msg)) })
		vp_Assert(!panicked, "ParseCommit does not crash")
		if panicked || err != nil {
			vp_Reach("refused")
			return
		}
		vp_Assert(c.Tree == vpOIDOf(treeHex), "tree is the header's tree")
		vp_Assert(len(c.Parents) == 1 && c.Parents[0] == vpOIDOf(parentHex), "exactly the header block's parent lines; nothing from the message")
		vp_Reach("commit")
		return
	}
	objHex := vpHexID(0x21)
	s := "object " + objHex + "\ntype commit\n"
	if where == 0 {
		s += kw + "\ntag v\ntagger T <t@u> 3 +0000\n"
	} else {
		s += "tag v\ntagger T <t@u> 3 +0000\n" + kw + "\n"
	}
	var t *Tag
	var err error
	panicked := vp_Catch(func() { t, err = ParseTag(OID{}, []byte(s+msg)) })
	vp_Assert(!panicked, "ParseTag does not crash")
	if panicked || err != nil {
		vp_Reach("refused")
		return
	}
	vp_Assert(t.Referent == vpOIDOf(objHex) && string(t.ReferentType) == "commit", "exactly the header block's object/type lines; nothing from the message")
	vp_Reach("tag")
}
