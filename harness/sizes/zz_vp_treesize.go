package sizes

import (
	"github.com/github/git-sizer/counts"
)

// H-treesize: one add* step of the checkout-expansion fold from an arbitrary
// accumulator and an arbitrary child (C04 arithmetic, C05 saturation).

const vpCap32 = uint64(1<<32 - 1)
const vpCap64 = ^uint64(0)

func vpMin(a, b uint64) uint64 { return vp_IteU64(a < b, a, b) }
func vpMax(a, b uint64) uint64 { return vp_IteU64(a > b, a, b) }

// vpSat64 returns min(a+b, 2^64-1).
func vpSat64(a, b uint64) uint64 {
	s := a + b
	return vp_IteU64(s < a, vpCap64, s)
}

func vpFreeTreeSize(p string) TreeSize {
	return TreeSize{
		MaxPathDepth:           counts.Count32(vp_U32(p + ".depth")),
		MaxPathLength:          counts.Count32(vp_U32(p + ".plen")),
		ExpandedTreeCount:      counts.Count32(vp_U32(p + ".trees")),
		ExpandedBlobCount:      counts.Count32(vp_U32(p + ".blobs")),
		ExpandedBlobSize:       counts.Count64(vp_U64(p + ".bytes")),
		ExpandedLinkCount:      counts.Count32(vp_U32(p + ".links")),
		ExpandedSubmoduleCount: counts.Count32(vp_U32(p + ".subs")),
	}
}

func vpName() (string, uint64) {
	L := vp_U64("namelen")
	vp_Assume(L >= 1)
	vp_Assume(L < 1<<62)
	return vp_OpaqueStr("name", L), L
}

func VPH_addDescendent() {
	s := vpFreeTreeSize("s")
	c := vpFreeTreeSize("c")
	// invariants of a finalised child: it is a tree (counts itself), and it has
	// a non-zero depth exactly when it has a non-empty longest path.
	vp_Assume(c.ExpandedTreeCount >= 1)
	vp_Assume((c.MaxPathDepth > 0) == (c.MaxPathLength > 0))
	name, L := vpName()
	old := s

	s.addDescendent(name, c) // the real code

	// depth: max(S, C+1), saturating
	vp_Assert(uint64(s.MaxPathDepth) == vpMax(uint64(old.MaxPathDepth), vpMin(uint64(c.MaxPathDepth)+1, vpCap32)), "depth=max(S,min(C+1,cap))")
	// path length: name alone for an empty child, else name + '/' + child's longest
	cand := vp_IteU64(c.MaxPathLength > 0, L+1+uint64(c.MaxPathLength), L)
	vp_KnownRegion("KF-a", L >= vpCap32)
	vp_Assert(uint64(s.MaxPathLength) == vpMax(uint64(old.MaxPathLength), vpMin(cand, vpCap32)), "plen=max(S,min(len+1+C,cap))")
	vp_KnownRegionEnd("KF-a")
	vp_Assert(uint64(s.ExpandedTreeCount) == vpMin(uint64(old.ExpandedTreeCount)+uint64(c.ExpandedTreeCount), vpCap32), "trees add")
	vp_Assert(uint64(s.ExpandedBlobCount) == vpMin(uint64(old.ExpandedBlobCount)+uint64(c.ExpandedBlobCount), vpCap32), "blobs add")
	vp_Assert(uint64(s.ExpandedBlobSize) == vpSat64(uint64(old.ExpandedBlobSize), uint64(c.ExpandedBlobSize)), "bytes add")
	vp_Assert(uint64(s.ExpandedLinkCount) == vpMin(uint64(old.ExpandedLinkCount)+uint64(c.ExpandedLinkCount), vpCap32), "links add")
	vp_Assert(uint64(s.ExpandedSubmoduleCount) == vpMin(uint64(old.ExpandedSubmoduleCount)+uint64(c.ExpandedSubmoduleCount), vpCap32), "submodules add")
	vp_Reach("end")
}

func vpLeafCommon(s, old TreeSize, L uint64) {
	vp_Assert(uint64(s.MaxPathDepth) == vpMax(uint64(old.MaxPathDepth), 1), "leaf depth=max(S,1)")
	vp_Assert(uint64(s.MaxPathLength) == vpMax(uint64(old.MaxPathLength), vpMin(L, vpCap32)), "leaf plen=max(S,min(len,cap))")
	vp_Assert(s.ExpandedTreeCount == old.ExpandedTreeCount, "leaf: trees unchanged")
}

func VPH_addBlob() {
	s := vpFreeTreeSize("s")
	name, L := vpName()
	size := vp_U32("size")
	old := s
	s.addBlob(name, BlobSize{counts.Count32(size)})
	vpLeafCommon(s, old, L)
	vp_Assert(uint64(s.ExpandedBlobCount) == vpMin(uint64(old.ExpandedBlobCount)+1, vpCap32), "blobs+1")
	vp_Assert(uint64(s.ExpandedBlobSize) == vpSat64(uint64(old.ExpandedBlobSize), uint64(size)), "bytes+size")
	vp_Assert(s.ExpandedLinkCount == old.ExpandedLinkCount, "links unchanged")
	vp_Assert(s.ExpandedSubmoduleCount == old.ExpandedSubmoduleCount, "submodules unchanged")
	vp_Reach("end")
}

func VPH_addLink() {
	s := vpFreeTreeSize("s")
	name, L := vpName()
	old := s
	s.addLink(name)
	vpLeafCommon(s, old, L)
	vp_Assert(uint64(s.ExpandedLinkCount) == vpMin(uint64(old.ExpandedLinkCount)+1, vpCap32), "links+1")
	vp_Assert(s.ExpandedBlobCount == old.ExpandedBlobCount, "blobs unchanged")
	vp_Assert(s.ExpandedBlobSize == old.ExpandedBlobSize, "bytes unchanged")
	vp_Assert(s.ExpandedSubmoduleCount == old.ExpandedSubmoduleCount, "submodules unchanged")
	vp_Reach("end")
}

func VPH_addSubmodule() {
	s := vpFreeTreeSize("s")
	name, L := vpName()
	old := s
	s.addSubmodule(name)
	vpLeafCommon(s, old, L)
	vp_Assert(uint64(s.ExpandedSubmoduleCount) == vpMin(uint64(old.ExpandedSubmoduleCount)+1, vpCap32), "submodules+1")
	vp_Assert(s.ExpandedBlobCount == old.ExpandedBlobCount, "blobs unchanged")
	vp_Assert(s.ExpandedBlobSize == old.ExpandedBlobSize, "bytes unchanged")
	vp_Assert(s.ExpandedLinkCount == old.ExpandedLinkCount, "links unchanged")
	vp_Reach("end")
}
