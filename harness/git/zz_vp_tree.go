package git

// H-tree-total / H-tree-roundtrip (C16, C02): TreeIter.NextEntry on arbitrary
// bytes, and on serialised well-formed entries.

// VPH_treeTotal: arbitrary buffer of N bytes; the parser terminates, never
// panics / reads outside the buffer, and each successful step consumes at
// least 23 bytes (1 mode digit, SP, >=0 name bytes, NUL, 20 id bytes).
func VPH_treeTotal() {
	n := vp_Param("n")
	data := vp_Bytes("d", n)
	tree, err := ParseTree(OID{}, data)
	vp_Assert(err == nil && tree != nil, "ParseTree accepts any bytes")
	vp_Assert(uint64(tree.Size()) == uint64(n), "Size=len(data)")
	it := tree.Iter()
	off := 0 // bytes accounted for by the entries returned so far (the iterator's own state is not inspected)
	steps := 0
	for {
		var e TreeEntry
		var ok bool
		var err error
		panicked := vp_Catch(func() { e, ok, err = it.NextEntry() })
		vp_Assert(!panicked, "NextEntry never panics")
		if panicked || err != nil || !ok {
			if err == nil && !panicked {
				vp_Assert(off == n, "ok=false without error only at the end of the data")
			}
			break
		}
		ml := vpModeLen(data[off:])
		consumed := ml + 1 + len(e.Name) + 1 + 20
		vp_Assert(consumed >= 23, "a successful step consumes at least 23 bytes")
		vp_Assert(off+consumed <= n, "the entry lies inside the buffer")
		if off+consumed > n {
			break
		}
		vp_Assert(string(data[off+ml+1:off+ml+1+len(e.Name)]) == e.Name && data[off+ml+1+len(e.Name)] == 0, "the name is the bytes between SP and NUL")
		id, _ := OIDFromBytes(data[off+consumed-20 : off+consumed])
		vp_Assert(e.OID == id, "the id is the 20 bytes after the NUL")
		off += consumed
		steps++
		vp_Assert(steps <= n/23, "terminates")
	}
	vp_Reach("end")
}

func vpModeLen(b []byte) int {
	for i := 0; i < len(b); i++ {
		if b[i] == ' ' {
			return i
		}
	}
	return len(b)
}

// vpOctal renders mode in canonical octal (no leading zero), as git writes it.
func vpOctal(mode uint32) []byte {
	if mode == 0 {
		return []byte{'0'}
	}
	var tmp [11]byte
	i := len(tmp)
	for mode > 0 {
		i--
		tmp[i] = byte('0' + mode&7)
		mode >>= 3
	}
	return tmp[i:]
}

// VPH_treeRoundtrip: K entries with free mode (any 16-bit mode with a valid
// type), free name bytes (non-NUL; SP allowed) and free ids are serialised as
// git does; parsing returns exactly those entries in order, then the end.
func VPH_treeRoundtrip() {
	k := vp_Param("k")
	nameLen := vp_Param("namelen")
	var data []byte
	type ent struct {
		mode uint32
		name []byte
		id   []byte
	}
	var ents []ent
	for i := 0; i < k; i++ {
		// mode: type nibble from the four kinds git writes, free permission bits
		typ := [4]uint32{0o040000, 0o100000, 0o120000, 0o160000}[vp_Choice("type", 4)]
		perm := uint32(vp_U16("perm")) & 0o7777
		mode := typ | perm
		nl := 1 + vp_Choice("namelen", nameLen)
		name := vp_Bytes("name", nl)
		for _, c := range name {
			vp_Assume(c != 0)
		}
		id := vp_Bytes("id", 20)
		ents = append(ents, ent{mode, name, id})
		data = append(data, vpOctal(mode)...)
		data = append(data, ' ')
		data = append(data, name...)
		data = append(data, 0)
		data = append(data, id...)
	}
	tree, _ := ParseTree(OID{}, data)
	it := tree.Iter()
	for i := 0; i < k; i++ {
		e, ok, err := it.NextEntry()
		vp_Assert(err == nil && ok, "entry parsed")
		if err != nil || !ok {
			return
		}
		vp_Assert(uint32(e.Filemode) == ents[i].mode, "mode round-trips")
		vp_Assert(e.Name == string(ents[i].name), "name bytes round-trip")
		vp_Assert(string(e.OID.v[:]) == string(ents[i].id), "object id round-trips")
	}
	_, ok, err := it.NextEntry()
	vp_Assert(err == nil && !ok, "end after the last entry")
	vp_Reach("end")
}
