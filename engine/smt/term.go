// Package smt: typed term DAG with constant folding, printed as SMT-LIB2.
//
// Terms are immutable. There is no global hash-consing: sharing comes from
// the interpreter re-using SSA values; the printer names shared nodes.
package smt

import (
	"fmt"
	"math"
	"math/big"
	"math/bits"
	"strings"
)

type SortKind uint8

const (
	SBool SortKind = iota
	SBV
	SFP  // float64 only
	SInt // mathematical integer (Int back end)
)

type Sort struct {
	K SortKind
	W int // bit width for SBV
}

var (
	Bool  = Sort{SBool, 0}
	FP64  = Sort{SFP, 64}
	IntS  = Sort{SInt, 0}
	BV8   = Sort{SBV, 8}
	BV32  = Sort{SBV, 32}
	BV64  = Sort{SBV, 64}
	True  = &Term{Op: OpConst, Sort: Bool, C: 1}
	False = &Term{Op: OpConst, Sort: Bool, C: 0}
)

func BV(w int) Sort { return Sort{SBV, w} }

func (s Sort) String() string {
	switch s.K {
	case SBool:
		return "Bool"
	case SBV:
		return fmt.Sprintf("(_ BitVec %d)", s.W)
	case SFP:
		return "(_ FloatingPoint 11 53)"
	case SInt:
		return "Int"
	}
	return "?"
}

type Op uint8

const (
	OpConst Op = iota
	OpVar
	OpNot
	OpAnd
	OpOr
	OpIte
	OpEq
	OpBVAdd
	OpBVSub
	OpBVMul
	OpBVUDiv
	OpBVURem
	OpBVSDiv
	OpBVSRem
	OpBVAnd
	OpBVOr
	OpBVXor
	OpBVNot
	OpBVNeg
	OpBVShl
	OpBVLShr
	OpBVAShr
	OpULt
	OpULe
	OpSLt
	OpSLe
	OpExtract // P1=hi P2=lo
	OpZeroExt // P1=extra bits
	OpSignExt // P1=extra bits
	OpConcat
	OpFPAdd
	OpFPSub
	OpFPMul
	OpFPDiv
	OpFPNeg
	OpFPLt
	OpFPLe
	OpFPEq // IEEE equality (== in Go)
	OpFPIsNaN
	OpUToFP   // unsigned bv -> fp, RNE
	OpSToFP   // signed bv -> fp, RNE
	OpFPToUBV // P1 = width, RTZ
	OpFPToSBV // P1 = width, RTZ
	OpFPFromBits
	OpFPRound // fp.roundToIntegral, P1 = mode: 0 RNE, 1 RNA, 2 RTP (ceil), 3 RTN (floor), 4 RTZ (trunc)
	// Int back end
	OpIAdd
	OpISub
	OpIMul
	OpIDiv // SMT-LIB div (floor for positive divisor)
	OpIMod
	OpILt
	OpILe
	OpINeg
)

type Term struct {
	Op   Op
	Sort Sort
	Args []*Term
	C    uint64   // constant value for Bool/BV (<=64 bits)
	F    float64  // constant for FP
	Big  *big.Int // constant for Int sort
	Name string   // OpVar
	P1   int
	P2   int
}

func (t *Term) IsConst() bool { return t.Op == OpConst }
func (t *Term) IsTrue() bool  { return t.Op == OpConst && t.Sort.K == SBool && t.C == 1 }
func (t *Term) IsFalse() bool { return t.Op == OpConst && t.Sort.K == SBool && t.C == 0 }

func mask(w int) uint64 {
	if w >= 64 {
		return ^uint64(0)
	}
	return (uint64(1) << uint(w)) - 1
}

// sx sign-extends the w-bit value c to int64.
func sx(c uint64, w int) int64 {
	if w >= 64 {
		return int64(c)
	}
	sh := uint(64 - w)
	return int64(c<<sh) >> sh
}

func ConstBV(w int, v uint64) *Term {
	if w > 64 {
		panic("ConstBV: width > 64")
	}
	return &Term{Op: OpConst, Sort: BV(w), C: v & mask(w)}
}

func ConstBool(b bool) *Term {
	if b {
		return True
	}
	return False
}

func ConstFP(f float64) *Term { return &Term{Op: OpConst, Sort: FP64, F: f} }

func ConstInt(v *big.Int) *Term { return &Term{Op: OpConst, Sort: IntS, Big: new(big.Int).Set(v)} }
func ConstIntU(v uint64) *Term  { return &Term{Op: OpConst, Sort: IntS, Big: new(big.Int).SetUint64(v)} }

func Var(name string, s Sort) *Term { return &Term{Op: OpVar, Sort: s, Name: name} }

func mk(op Op, s Sort, args ...*Term) *Term { return &Term{Op: op, Sort: s, Args: args} }

// ---------------------------------------------------------------- booleans

func Not(a *Term) *Term {
	if a.IsConst() {
		return ConstBool(a.C == 0)
	}
	if a.Op == OpNot {
		return a.Args[0]
	}
	return mk(OpNot, Bool, a)
}

func And(a, b *Term) *Term {
	if a.IsConst() {
		if a.C == 1 {
			return b
		}
		return False
	}
	if b.IsConst() {
		if b.C == 1 {
			return a
		}
		return False
	}
	if a == b {
		return a
	}
	return mk(OpAnd, Bool, a, b)
}

func Or(a, b *Term) *Term {
	if a.IsConst() {
		if a.C == 1 {
			return True
		}
		return b
	}
	if b.IsConst() {
		if b.C == 1 {
			return True
		}
		return a
	}
	if a == b {
		return a
	}
	return mk(OpOr, Bool, a, b)
}

func AndN(ts ...*Term) *Term {
	r := True
	for _, t := range ts {
		r = And(r, t)
	}
	return r
}

func OrN(ts ...*Term) *Term {
	r := False
	for _, t := range ts {
		r = Or(r, t)
	}
	return r
}

func Implies(a, b *Term) *Term { return Or(Not(a), b) }

func Ite(c, a, b *Term) *Term {
	if c.IsConst() {
		if c.C == 1 {
			return a
		}
		return b
	}
	if a == b {
		return a
	}
	if a.Sort != b.Sort {
		panic(fmt.Sprintf("Ite: sort mismatch %v %v", a.Sort, b.Sort))
	}
	if a.Sort.K == SBool {
		if a.IsConst() && b.IsConst() {
			if a.C == 1 && b.C == 0 {
				return c
			}
			if a.C == 0 && b.C == 1 {
				return Not(c)
			}
		}
	}
	if a.IsConst() && b.IsConst() && constEq(a, b) {
		return a
	}
	return mk(OpIte, a.Sort, c, a, b)
}

func constEq(a, b *Term) bool {
	switch a.Sort.K {
	case SBool, SBV:
		return a.C == b.C
	case SFP:
		return math.Float64bits(a.F) == math.Float64bits(b.F)
	case SInt:
		return a.Big.Cmp(b.Big) == 0
	}
	return false
}

// Eq is structural/bitwise equality (SMT "="). For FP use FPEq for Go's ==.
func Eq(a, b *Term) *Term {
	if a.Sort != b.Sort {
		panic(fmt.Sprintf("Eq: sort mismatch %v %v", a.Sort, b.Sort))
	}
	if a == b {
		return True
	}
	if a.IsConst() && b.IsConst() {
		return ConstBool(constEq(a, b))
	}
	if a.Sort.K == SBool {
		if a.IsConst() {
			if a.C == 1 {
				return b
			}
			return Not(b)
		}
		if b.IsConst() {
			if b.C == 1 {
				return a
			}
			return Not(a)
		}
	}
	return mk(OpEq, Bool, a, b)
}

// ---------------------------------------------------------------- bit-vectors

func bvbin(op Op, a, b *Term) *Term {
	if a.Sort != b.Sort || a.Sort.K != SBV {
		panic(fmt.Sprintf("bvbin %d: sort mismatch %v %v", op, a.Sort, b.Sort))
	}
	w := a.Sort.W
	if a.IsConst() && b.IsConst() {
		x, y := a.C, b.C
		var r uint64
		switch op {
		case OpBVAdd:
			r = x + y
		case OpBVSub:
			r = x - y
		case OpBVMul:
			r = x * y
		case OpBVUDiv:
			if y == 0 {
				r = mask(w)
			} else {
				r = x / y
			}
		case OpBVURem:
			if y == 0 {
				r = x
			} else {
				r = x % y
			}
		case OpBVSDiv:
			sxv, syv := sx(x, w), sx(y, w)
			if syv == 0 {
				if sxv >= 0 {
					r = mask(w)
				} else {
					r = 1
				}
			} else if syv == -1 {
				r = uint64(-sxv)
			} else {
				r = uint64(sxv / syv)
			}
		case OpBVSRem:
			sxv, syv := sx(x, w), sx(y, w)
			if syv == 0 {
				r = x
			} else if syv == -1 {
				r = 0
			} else {
				r = uint64(sxv % syv)
			}
		case OpBVAnd:
			r = x & y
		case OpBVOr:
			r = x | y
		case OpBVXor:
			r = x ^ y
		case OpBVShl:
			if y >= uint64(w) {
				r = 0
			} else {
				r = x << y
			}
		case OpBVLShr:
			if y >= uint64(w) {
				r = 0
			} else {
				r = x >> y
			}
		case OpBVAShr:
			s := sx(x, w)
			if y >= uint64(w) {
				if s < 0 {
					r = mask(w)
				} else {
					r = 0
				}
			} else {
				r = uint64(s >> y)
			}
		default:
			panic("bvbin const")
		}
		return ConstBV(w, r)
	}
	// light identities
	switch op {
	case OpBVAdd, OpBVOr, OpBVXor:
		if a.IsConst() && a.C == 0 {
			return b
		}
		if b.IsConst() && b.C == 0 {
			return a
		}
	case OpBVSub, OpBVShl, OpBVLShr, OpBVAShr:
		if b.IsConst() && b.C == 0 {
			return a
		}
	case OpBVMul:
		if a.IsConst() && a.C == 1 {
			return b
		}
		if b.IsConst() && b.C == 1 {
			return a
		}
		if (a.IsConst() && a.C == 0) || (b.IsConst() && b.C == 0) {
			return ConstBV(w, 0)
		}
	case OpBVUDiv:
		if b.IsConst() && b.C == 1 {
			return a
		}
	case OpBVAnd:
		if (a.IsConst() && a.C == 0) || (b.IsConst() && b.C == 0) {
			return ConstBV(w, 0)
		}
		if a.IsConst() && a.C == mask(w) {
			return b
		}
		if b.IsConst() && b.C == mask(w) {
			return a
		}
	}
	return mk(op, a.Sort, a, b)
}

func BVAdd(a, b *Term) *Term  { return bvbin(OpBVAdd, a, b) }
func BVSub(a, b *Term) *Term  { return bvbin(OpBVSub, a, b) }
func BVMul(a, b *Term) *Term  { return bvbin(OpBVMul, a, b) }
func BVUDiv(a, b *Term) *Term { return bvbin(OpBVUDiv, a, b) }
func BVURem(a, b *Term) *Term { return bvbin(OpBVURem, a, b) }
func BVSDiv(a, b *Term) *Term { return bvbin(OpBVSDiv, a, b) }
func BVSRem(a, b *Term) *Term { return bvbin(OpBVSRem, a, b) }
func BVAnd(a, b *Term) *Term  { return bvbin(OpBVAnd, a, b) }
func BVOr(a, b *Term) *Term   { return bvbin(OpBVOr, a, b) }
func BVXor(a, b *Term) *Term  { return bvbin(OpBVXor, a, b) }
func BVShl(a, b *Term) *Term  { return bvbin(OpBVShl, a, b) }
func BVLShr(a, b *Term) *Term { return bvbin(OpBVLShr, a, b) }
func BVAShr(a, b *Term) *Term { return bvbin(OpBVAShr, a, b) }

func BVNot(a *Term) *Term {
	if a.IsConst() {
		return ConstBV(a.Sort.W, ^a.C)
	}
	return mk(OpBVNot, a.Sort, a)
}

func BVNeg(a *Term) *Term {
	if a.IsConst() {
		return ConstBV(a.Sort.W, -a.C)
	}
	return mk(OpBVNeg, a.Sort, a)
}

func bvcmp(op Op, a, b *Term) *Term {
	if a.Sort != b.Sort || a.Sort.K != SBV {
		panic(fmt.Sprintf("bvcmp: sort mismatch %v %v", a.Sort, b.Sort))
	}
	w := a.Sort.W
	if a.IsConst() && b.IsConst() {
		switch op {
		case OpULt:
			return ConstBool(a.C < b.C)
		case OpULe:
			return ConstBool(a.C <= b.C)
		case OpSLt:
			return ConstBool(sx(a.C, w) < sx(b.C, w))
		case OpSLe:
			return ConstBool(sx(a.C, w) <= sx(b.C, w))
		}
	}
	if a == b {
		return ConstBool(op == OpULe || op == OpSLe)
	}
	switch op {
	case OpULt:
		if b.IsConst() && b.C == 0 {
			return False
		}
		if a.IsConst() && a.C == mask(w) {
			return False
		}
	case OpULe:
		if a.IsConst() && a.C == 0 {
			return True
		}
		if b.IsConst() && b.C == mask(w) {
			return True
		}
	}
	// zero-extended operand against a constant that does not fit: decide.
	if a.Op == OpZeroExt && b.IsConst() && (op == OpULt || op == OpULe) {
		iw := a.Args[0].Sort.W
		if b.C > mask(iw) {
			return True
		}
	}
	if b.Op == OpZeroExt && a.IsConst() && (op == OpULt || op == OpULe) {
		iw := b.Args[0].Sort.W
		if a.C > mask(iw) {
			return False
		}
	}
	return mk(op, Bool, a, b)
}

func ULt(a, b *Term) *Term { return bvcmp(OpULt, a, b) }
func ULe(a, b *Term) *Term { return bvcmp(OpULe, a, b) }
func SLt(a, b *Term) *Term { return bvcmp(OpSLt, a, b) }
func SLe(a, b *Term) *Term { return bvcmp(OpSLe, a, b) }

func Extract(a *Term, hi, lo int) *Term {
	if a.Sort.K != SBV || hi >= a.Sort.W || lo < 0 || hi < lo {
		panic("Extract: bad range")
	}
	w := hi - lo + 1
	if w == a.Sort.W {
		return a
	}
	if a.IsConst() {
		return ConstBV(w, a.C>>uint(lo))
	}
	if (a.Op == OpZeroExt || a.Op == OpSignExt) && lo == 0 {
		iw := a.Args[0].Sort.W
		if w == iw {
			return a.Args[0]
		}
		if w < iw {
			return Extract(a.Args[0], hi, 0)
		}
	}
	t := mk(OpExtract, BV(w), a)
	t.P1, t.P2 = hi, lo
	return t
}

func ZeroExt(a *Term, to int) *Term {
	if a.Sort.K != SBV || to < a.Sort.W {
		panic("ZeroExt")
	}
	if to == a.Sort.W {
		return a
	}
	if a.IsConst() {
		return ConstBV(to, a.C)
	}
	if a.Op == OpZeroExt {
		return ZeroExt(a.Args[0], to)
	}
	t := mk(OpZeroExt, BV(to), a)
	t.P1 = to - a.Sort.W
	return t
}

func SignExt(a *Term, to int) *Term {
	if a.Sort.K != SBV || to < a.Sort.W {
		panic("SignExt")
	}
	if to == a.Sort.W {
		return a
	}
	if a.IsConst() {
		return ConstBV(to, uint64(sx(a.C, a.Sort.W)))
	}
	t := mk(OpSignExt, BV(to), a)
	t.P1 = to - a.Sort.W
	return t
}

func Concat(hi, lo *Term) *Term {
	w := hi.Sort.W + lo.Sort.W
	if hi.IsConst() && lo.IsConst() && w <= 64 {
		return ConstBV(w, hi.C<<uint(lo.Sort.W)|lo.C)
	}
	return mk(OpConcat, BV(w), hi, lo)
}

// Resize converts between integer widths as Go does: truncate, or extend
// according to the signedness of the *source*.
func Resize(a *Term, to int, srcSigned bool) *Term {
	w := a.Sort.W
	switch {
	case to == w:
		return a
	case to < w:
		return Extract(a, to-1, 0)
	case srcSigned:
		return SignExt(a, to)
	default:
		return ZeroExt(a, to)
	}
}

// ---------------------------------------------------------------- floats

func fpbin(op Op, a, b *Term) *Term {
	if a.IsConst() && b.IsConst() {
		switch op {
		case OpFPAdd:
			return ConstFP(a.F + b.F)
		case OpFPSub:
			return ConstFP(a.F - b.F)
		case OpFPMul:
			return ConstFP(a.F * b.F)
		case OpFPDiv:
			return ConstFP(a.F / b.F)
		}
	}
	return mk(op, FP64, a, b)
}

func FPAdd(a, b *Term) *Term { return fpbin(OpFPAdd, a, b) }
func FPSub(a, b *Term) *Term { return fpbin(OpFPSub, a, b) }
func FPMul(a, b *Term) *Term { return fpbin(OpFPMul, a, b) }
func FPDiv(a, b *Term) *Term { return fpbin(OpFPDiv, a, b) }

func FPNeg(a *Term) *Term {
	if a.IsConst() {
		return ConstFP(-a.F)
	}
	return mk(OpFPNeg, FP64, a)
}

func fpcmp(op Op, a, b *Term) *Term {
	if a.IsConst() && b.IsConst() {
		switch op {
		case OpFPLt:
			return ConstBool(a.F < b.F)
		case OpFPLe:
			return ConstBool(a.F <= b.F)
		case OpFPEq:
			return ConstBool(a.F == b.F)
		}
	}
	return mk(op, Bool, a, b)
}

func FPLt(a, b *Term) *Term { return fpcmp(OpFPLt, a, b) }
func FPLe(a, b *Term) *Term { return fpcmp(OpFPLe, a, b) }
func FPEq(a, b *Term) *Term { return fpcmp(OpFPEq, a, b) }

func FPIsNaN(a *Term) *Term {
	if a.IsConst() {
		return ConstBool(math.IsNaN(a.F))
	}
	return mk(OpFPIsNaN, Bool, a)
}

func UToFP(a *Term) *Term {
	if a.IsConst() {
		return ConstFP(float64(a.C))
	}
	return mk(OpUToFP, FP64, a)
}

func SToFP(a *Term) *Term {
	if a.IsConst() {
		return ConstFP(float64(sx(a.C, a.Sort.W)))
	}
	return mk(OpSToFP, FP64, a)
}

// FPToBV converts with truncation toward zero (Go semantics for in-range values).
func FPToBV(a *Term, w int, signed bool) *Term {
	if a.IsConst() && !math.IsNaN(a.F) && !math.IsInf(a.F, 0) {
		f := math.Trunc(a.F)
		if signed {
			if f >= -9.2e18 && f <= 9.2e18 {
				return ConstBV(w, uint64(int64(f)))
			}
		} else if f >= 0 && f <= 1.8e19 {
			return ConstBV(w, uint64(f))
		}
	}
	op := OpFPToUBV
	if signed {
		op = OpFPToSBV
	}
	t := mk(op, BV(w), a)
	t.P1 = w
	return t
}

func FPFromBits(a *Term) *Term {
	if a.IsConst() {
		return ConstFP(math.Float64frombits(a.C))
	}
	return mk(OpFPFromBits, FP64, a)
}

// FPRound rounds to an integral value: mode 0 RNE (math.RoundToEven), 1 RNA
// (math.Round), 2 RTP (math.Ceil), 3 RTN (math.Floor), 4 RTZ (math.Trunc).
func FPRound(a *Term, mode int) *Term {
	if a.IsConst() {
		switch mode {
		case 0:
			return ConstFP(math.RoundToEven(a.F))
		case 1:
			return ConstFP(math.Round(a.F))
		case 2:
			return ConstFP(math.Ceil(a.F))
		case 3:
			return ConstFP(math.Floor(a.F))
		case 4:
			return ConstFP(math.Trunc(a.F))
		}
	}
	t := mk(OpFPRound, FP64, a)
	t.P1 = mode
	return t
}

// ---------------------------------------------------------------- Int sort

func ibin(op Op, a, b *Term) *Term {
	if a.Sort.K != SInt || b.Sort.K != SInt {
		panic("ibin: not Int")
	}
	if a.IsConst() && b.IsConst() {
		r := new(big.Int)
		switch op {
		case OpIAdd:
			r.Add(a.Big, b.Big)
		case OpISub:
			r.Sub(a.Big, b.Big)
		case OpIMul:
			r.Mul(a.Big, b.Big)
		case OpIDiv:
			if b.Big.Sign() == 0 {
				return mk(op, IntS, a, b)
			}
			m := new(big.Int)
			r.DivMod(a.Big, b.Big, m) // Euclidean, like SMT-LIB
		case OpIMod:
			if b.Big.Sign() == 0 {
				return mk(op, IntS, a, b)
			}
			r.Mod(a.Big, b.Big)
		}
		return ConstInt(r)
	}
	return mk(op, IntS, a, b)
}

func IAdd(a, b *Term) *Term { return ibin(OpIAdd, a, b) }
func ISub(a, b *Term) *Term { return ibin(OpISub, a, b) }
func IMul(a, b *Term) *Term { return ibin(OpIMul, a, b) }
func IDiv(a, b *Term) *Term { return ibin(OpIDiv, a, b) }
func IMod(a, b *Term) *Term { return ibin(OpIMod, a, b) }
func ILt(a, b *Term) *Term {
	if a.IsConst() && b.IsConst() {
		return ConstBool(a.Big.Cmp(b.Big) < 0)
	}
	return mk(OpILt, Bool, a, b)
}
func ILe(a, b *Term) *Term {
	if a.IsConst() && b.IsConst() {
		return ConstBool(a.Big.Cmp(b.Big) <= 0)
	}
	return mk(OpILe, Bool, a, b)
}

// ---------------------------------------------------------------- printing

var opNames = map[Op]string{
	OpNot: "not", OpAnd: "and", OpOr: "or", OpIte: "ite", OpEq: "=",
	OpBVAdd: "bvadd", OpBVSub: "bvsub", OpBVMul: "bvmul", OpBVUDiv: "bvudiv", OpBVURem: "bvurem",
	OpBVSDiv: "bvsdiv", OpBVSRem: "bvsrem", OpBVAnd: "bvand", OpBVOr: "bvor", OpBVXor: "bvxor",
	OpBVNot: "bvnot", OpBVNeg: "bvneg", OpBVShl: "bvshl", OpBVLShr: "bvlshr", OpBVAShr: "bvashr",
	OpULt: "bvult", OpULe: "bvule", OpSLt: "bvslt", OpSLe: "bvsle", OpConcat: "concat",
	OpFPAdd: "fp.add RNE", OpFPSub: "fp.sub RNE", OpFPMul: "fp.mul RNE", OpFPDiv: "fp.div RNE",
	OpFPNeg: "fp.neg", OpFPLt: "fp.lt", OpFPLe: "fp.leq", OpFPEq: "fp.eq", OpFPIsNaN: "fp.isNaN",
	OpUToFP: "(_ to_fp_unsigned 11 53) RNE", OpSToFP: "(_ to_fp 11 53) RNE",
	OpFPFromBits: "(_ to_fp 11 53)",
	OpIAdd:       "+", OpISub: "-", OpIMul: "*", OpIDiv: "div", OpIMod: "mod", OpILt: "<", OpILe: "<=", OpINeg: "-",
}

func constString(t *Term) string {
	switch t.Sort.K {
	case SBool:
		if t.C == 1 {
			return "true"
		}
		return "false"
	case SBV:
		if t.Sort.W%4 == 0 {
			return fmt.Sprintf("#x%0*x", t.Sort.W/4, t.C)
		}
		return fmt.Sprintf("#b%0*b", t.Sort.W, t.C)
	case SFP:
		b := math.Float64bits(t.F)
		return fmt.Sprintf("(fp #b%b #b%011b #x%013x)", b>>63, (b>>52)&0x7ff, b&((1<<52)-1))
	case SInt:
		if t.Big.Sign() < 0 {
			return "(- " + new(big.Int).Neg(t.Big).String() + ")"
		}
		return t.Big.String()
	}
	return "?"
}

// Head returns the operator text for a non-leaf term (including indices).
func head(t *Term) string {
	switch t.Op {
	case OpExtract:
		return fmt.Sprintf("(_ extract %d %d)", t.P1, t.P2)
	case OpZeroExt:
		return fmt.Sprintf("(_ zero_extend %d)", t.P1)
	case OpSignExt:
		return fmt.Sprintf("(_ sign_extend %d)", t.P1)
	case OpFPToUBV:
		return fmt.Sprintf("(_ fp.to_ubv %d) RTZ", t.P1)
	case OpFPToSBV:
		return fmt.Sprintf("(_ fp.to_sbv %d) RTZ", t.P1)
	case OpFPRound:
		return "fp.roundToIntegral " + [...]string{"RNE", "RNA", "RTP", "RTN", "RTZ"}[t.P1]
	}
	if s, ok := opNames[t.Op]; ok {
		return s
	}
	panic(fmt.Sprintf("head: op %d", t.Op))
}

// Printer emits SMT-LIB with named shared sub-terms.
type Printer struct {
	canon  map[string]string // definition text -> name (structural sharing)
	NegOf  map[string]string // name of (not X) -> name of X
	HasFP  bool
	HasInt bool
	names  map[*Term]string
	vars   map[string]Sort
	n      int
	Out    *strings.Builder
	Vars   []string // declaration order
	prefix string
}

func NewPrinter() *Printer {
	return &Printer{names: map[*Term]string{}, vars: map[string]Sort{}, Out: &strings.Builder{}, prefix: "t",
		canon: map[string]string{}, NegOf: map[string]string{}}
}

func (p *Printer) Reset() {
	p.names = map[*Term]string{}
	p.canon = map[string]string{}
	p.NegOf = map[string]string{}
	p.HasFP, p.HasInt = false, false
	p.vars = map[string]Sort{}
	p.n = 0
	p.Vars = nil
	p.Out.Reset()
}

func (p *Printer) VarSort(name string) (Sort, bool) { s, ok := p.vars[name]; return s, ok }

func quoteName(n string) string { return "|" + n + "|" }

// Ref returns a reference expression for t, appending any needed
// declarations / definitions to p.Out first.
func (p *Printer) Ref(t *Term) string {
	switch t.Op {
	case OpConst:
		return constString(t)
	case OpVar:
		if _, ok := p.vars[t.Name]; !ok {
			p.vars[t.Name] = t.Sort
			p.Vars = append(p.Vars, t.Name)
			fmt.Fprintf(p.Out, "(declare-const %s %s)\n", quoteName(t.Name), t.Sort)
		}
		return quoteName(t.Name)
	}
	if n, ok := p.names[t]; ok {
		return n
	}
	// iterative post-order to avoid deep recursion
	type fr struct {
		t *Term
		i int
	}
	stack := []fr{{t, 0}}
	for len(stack) > 0 {
		top := &stack[len(stack)-1]
		if top.i < len(top.t.Args) {
			a := top.t.Args[top.i]
			top.i++
			if a.Op == OpConst || a.Op == OpVar {
				p.Ref(a)
				continue
			}
			if _, ok := p.names[a]; ok {
				continue
			}
			stack = append(stack, fr{a, 0})
			continue
		}
		cur := top.t
		stack = stack[:len(stack)-1]
		if _, ok := p.names[cur]; ok {
			continue
		}
		var sb strings.Builder
		sb.WriteString("(")
		sb.WriteString(head(cur))
		for _, a := range cur.Args {
			sb.WriteString(" ")
			sb.WriteString(p.Ref(a))
		}
		sb.WriteString(")")
		def := sb.String()
		if n, ok := p.canon[def]; ok {
			p.names[cur] = n
			continue
		}
		p.n++
		name := fmt.Sprintf("%s%d", p.prefix, p.n)
		fmt.Fprintf(p.Out, "(define-fun %s () %s %s)\n", name, cur.Sort, def)
		p.names[cur] = name
		p.canon[def] = name
		if cur.Op == OpNot {
			p.NegOf[name] = p.names[cur.Args[0]]
			if cur.Args[0].Op == OpVar {
				p.NegOf[name] = quoteName(cur.Args[0].Name)
			}
		}
		switch cur.Sort.K {
		case SFP:
			p.HasFP = true
		case SInt:
			p.HasInt = true
		}
		for _, a := range cur.Args {
			switch a.Sort.K {
			case SFP:
				p.HasFP = true
			case SInt:
				p.HasInt = true
			}
		}
	}
	return p.names[t]
}

// String renders a term as a self-contained expression (for logs).
func (t *Term) String() string {
	switch t.Op {
	case OpConst:
		return constString(t)
	case OpVar:
		return t.Name
	}
	var sb strings.Builder
	sb.WriteString("(")
	sb.WriteString(head(t))
	for _, a := range t.Args {
		sb.WriteString(" ")
		s := a.String()
		if len(s) > 200 {
			s = s[:200] + "…"
		}
		sb.WriteString(s)
	}
	sb.WriteString(")")
	return sb.String()
}

var _ = bits.Len64

// Rebuild re-applies t's operator to new arguments through the folding constructors.
func Rebuild(t *Term, a []*Term) *Term {
	switch t.Op {
	case OpNot:
		return Not(a[0])
	case OpAnd:
		return And(a[0], a[1])
	case OpOr:
		return Or(a[0], a[1])
	case OpIte:
		return Ite(a[0], a[1], a[2])
	case OpEq:
		return Eq(a[0], a[1])
	case OpBVAdd, OpBVSub, OpBVMul, OpBVUDiv, OpBVURem, OpBVSDiv, OpBVSRem, OpBVAnd, OpBVOr, OpBVXor, OpBVShl, OpBVLShr, OpBVAShr:
		return bvbin(t.Op, a[0], a[1])
	case OpBVNot:
		return BVNot(a[0])
	case OpBVNeg:
		return BVNeg(a[0])
	case OpULt, OpULe, OpSLt, OpSLe:
		return bvcmp(t.Op, a[0], a[1])
	case OpExtract:
		return Extract(a[0], t.P1, t.P2)
	case OpZeroExt:
		return ZeroExt(a[0], t.Sort.W)
	case OpSignExt:
		return SignExt(a[0], t.Sort.W)
	case OpConcat:
		return Concat(a[0], a[1])
	case OpFPAdd, OpFPSub, OpFPMul, OpFPDiv:
		return fpbin(t.Op, a[0], a[1])
	case OpFPNeg:
		return FPNeg(a[0])
	case OpFPLt, OpFPLe, OpFPEq:
		return fpcmp(t.Op, a[0], a[1])
	case OpFPIsNaN:
		return FPIsNaN(a[0])
	case OpUToFP:
		return UToFP(a[0])
	case OpSToFP:
		return SToFP(a[0])
	case OpFPToUBV:
		return FPToBV(a[0], t.P1, false)
	case OpFPToSBV:
		return FPToBV(a[0], t.P1, true)
	case OpFPFromBits:
		return FPFromBits(a[0])
	case OpFPRound:
		return FPRound(a[0], t.P1)
	}
	r := *t
	r.Args = a
	return &r
}

// Subst rewrites t bottom-up: pin returns a replacement for a node or nil.
func Subst(t *Term, pin func(*Term) *Term, memo map[*Term]*Term) *Term {
	if r, ok := memo[t]; ok {
		return r
	}
	var res *Term
	if r := pin(t); r != nil {
		res = r
	} else if len(t.Args) == 0 {
		res = t
	} else {
		changed := false
		na := make([]*Term, len(t.Args))
		for i, a := range t.Args {
			na[i] = Subst(a, pin, memo)
			if na[i] != a {
				changed = true
			}
		}
		if changed {
			res = Rebuild(t, na)
		} else {
			res = t
		}
	}
	memo[t] = res
	return res
}
