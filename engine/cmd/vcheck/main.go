// vcheck: runs the solver-based checks for one property (see /verif/DESIGN.md).
//
//	vcheck <ID> --tier quick|thorough      decide property ID
//	vcheck --replay <file>                 re-run a recorded counterexample natively
//	vcheck --list                          list harnesses
package main

import (
	"bufio"
	"encoding/json"
	"flag"
	"fmt"
	"go/ast"
	"go/parser"
	"go/token"
	"os"
	"os/exec"
	"path/filepath"
	"regexp"
	"sort"
	"strconv"
	"strings"
	"time"

	"verif/engine/smt"
	"verif/engine/symex"
)

const module = "github.com/github/git-sizer"

// repoDir is /repo. VERIF_REPO_SCRATCH points development runs (seeded changes
// applied to a scratch worktree) at another checkout; such runs never write
// the property's evidence file. No registered command sets it.
var repoDir = func() string {
	if d := os.Getenv("VERIF_REPO_SCRATCH"); d != "" {
		return d
	}
	return "/repo"
}()

// verifDir is /verif unless VERIF_DIR points at a snapshot of it (vp run).
var verifDir = func() string {
	if d := os.Getenv("VERIF_DIR"); d != "" {
		return d
	}
	return "/verif"
}()

type TierCfg struct {
	Params   map[string]int64 `json:"params"`
	MaxPaths int              `json:"max_paths"`
	Skip     bool             `json:"skip"`
}

type Harness struct {
	Name     string   `json:"name"`
	Pkg      string   `json:"pkg"`  // import path
	Func     string   `json:"func"` // VPH_...
	Props    []string `json:"props"`
	Quick    TierCfg  `json:"quick"`
	Thorough TierCfg  `json:"thorough"`
	MaxSteps int      `json:"max_steps"`
	Solver   string   `json:"solver"`
	Timeout  int      `json:"timeout_ms"`
	Bounds   string   `json:"bounds"`
	Stubs    []string `json:"stubs"`
	Assumes  []string `json:"assumptions"`
	Backend  string   `json:"backend"`   // "" (BV+FP) or "int"
	NoNative bool     `json:"no_native"` // harness cannot run natively (engine-only stubs)
	MinReach int      `json:"min_reach"`
}

type Registry struct {
	Harnesses []Harness `json:"harnesses"`
}

type KnownFinding struct {
	Status   string `json:"status"`
	Property string `json:"property"`
	ID       string `json:"id"`
	Harness  string `json:"harness"`
	What     string `json:"what"`
	Region   string `json:"region"`
	Commit   string `json:"commit"`
}

func loadKnown() []KnownFinding {
	var out []KnownFinding
	f, err := os.Open(filepath.Join(verifDir, "known_findings.jsonl"))
	if err != nil {
		return nil
	}
	defer f.Close()
	sc := bufio.NewScanner(f)
	sc.Buffer(make([]byte, 1<<20), 1<<20)
	for sc.Scan() {
		line := strings.TrimSpace(sc.Text())
		if line == "" {
			continue
		}
		var k KnownFinding
		if json.Unmarshal([]byte(line), &k) == nil {
			out = append(out, k)
		}
	}
	return out
}

type replayRec struct {
	Property string            `json:"property"`
	Harness  string            `json:"harness"`
	Func     string            `json:"func"`
	Pkg      string            `json:"pkg"`
	Label    string            `json:"label"`
	Tier     string            `json:"tier"`
	Inputs   map[string]string `json:"inputs"`
	Params   map[string]int64  `json:"params"`
	Decs     []int64           `json:"decisions"`
	Known    string            `json:"known,omitempty"`
	Result   string            `json:"native_result,omitempty"`
}

func fatal(code int, format string, a ...interface{}) {
	fmt.Fprintf(os.Stderr, format+"\n", a...)
	os.Exit(code)
}

func main() {
	tier := flag.String("tier", os.Getenv("VERIF_TIER"), "quick|thorough")
	replay := flag.String("replay", "", "replay file")
	list := flag.Bool("list", false, "list harnesses")
	only := flag.String("only", "", "run only this harness (debug)")
	workers := flag.Int("workers", 16, "")
	verbose := flag.Bool("v", false, "")
	// allow "vcheck C05 --tier quick"
	args := os.Args[1:]
	var id string
	if len(args) > 0 && !strings.HasPrefix(args[0], "-") {
		id = args[0]
		args = args[1:]
	}
	flag.CommandLine.Parse(args)
	if *tier == "" {
		*tier = "quick"
	}
	seed := 0
	if s := os.Getenv("VERIF_SEED"); s != "" {
		seed, _ = strconv.Atoi(s)
	}
	smt.Seed = seed

	var reg Registry
	b, err := os.ReadFile(filepath.Join(verifDir, "harness", "harness.json"))
	if err != nil {
		fatal(2, "registry: %v", err)
	}
	if err := json.Unmarshal(b, &reg); err != nil {
		fatal(2, "registry: %v", err)
	}
	if *list {
		for _, h := range reg.Harnesses {
			fmt.Printf("%-28s %-14v %s.%s\n", h.Name, h.Props, h.Pkg, h.Func)
		}
		return
	}
	if *replay != "" {
		os.Exit(doReplay(*replay))
	}
	if id == "" {
		fatal(2, "usage: check <ID> [--tier quick|thorough] | --replay <file> | --list")
	}
	os.Exit(runProperty(id, *tier, seed, reg, *only, *workers, *verbose))
}

type harnessReport struct {
	H              Harness
	Tier           TierCfg
	Res            *symex.ExploreResult
	Paths          int
	Ended          int
	Stopped        int
	Aborts         map[string]int
	Discharged     int
	Trivial        int
	Unknown        int
	Viol           []*replayRec
	KnownHits      []*replayRec
	Reach          map[string]int
	Funcs          map[string]bool
	Samples        []map[string]interface{}
	Validate       []*replayRec
	minSampleScore int
	Cross          string
}

func runProperty(id, tier string, seed int, reg Registry, only string, workers int, verbose bool) int {
	t0 := time.Now()
	var hs []Harness
	for _, h := range reg.Harnesses {
		if only != "" && h.Name != only {
			continue
		}
		for _, p := range h.Props {
			if p == id {
				hs = append(hs, h)
			}
		}
	}
	if len(hs) == 0 {
		fatal(2, "no harness registered for property %s", id)
	}
	known := loadKnown()
	knownIDs := map[string]bool{}
	for _, k := range known {
		if k.Status == "known" {
			knownIDs[k.ID] = true
		}
	}
	ov, err := symex.ReadOverlayDir(filepath.Join(verifDir, "harness"), repoDir)
	if err != nil {
		fatal(2, "overlay: %v", err)
	}
	tl := time.Now()
	var in *symex.Interp
	dropped := map[string]string{} // harness file -> first error
	for attempt := 0; ; attempt++ {
		in, _, err = symex.Load(symex.LoadConfig{RepoDir: repoDir, Module: module, Patterns: []string{"./..."}, Overlay: ov, Known: knownIDs})
		if err == nil {
			break
		}
		// A harness file that no longer compiles against the edited tree is
		// dropped (its harnesses become INCONCLUSIVE) so that the others still run.
		progress := false
		for _, line := range strings.Split(err.Error(), "\n") {
			line = strings.TrimSpace(line)
			i := strings.Index(line, ".go:")
			if i < 0 {
				continue
			}
			file := line[:i+3]
			base := filepath.Base(file)
			if src, isOv := ov[file]; isOv && strings.HasPrefix(base, "zz_vp_") && base != "zz_vp_rt.go" {
				// first try to take out only the declaration the error points into
				// (the other harnesses of the file keep running) ...
				if patched, what := blankDeclAt(src, line[i+4:]); patched != nil {
					ov[file] = patched
					key := file + "#" + what
					if _, done := dropped[key]; !done {
						dropped[key] = line
					}
					progress = true
					break // positions in this file have changed meaning: reload
				}
				// ... else the whole file
				if _, done := dropped[file]; !done && base != "zz_vp_common.go" {
					dropped[file] = line
					delete(ov, file)
					progress = true
				}
			}
		}
		if !progress || attempt > 40 {
			fatal(2, "cannot load /repo with harness overlay (does the tree still compile?): %v", err)
		}
	}
	loadDur := time.Since(tl)

	var reports []*harnessReport
	inconclusive := []string{}
	for _, h := range hs {
		tc := h.Quick
		if tier == "thorough" {
			tc = h.Thorough
			if tc.Params == nil && tc.MaxPaths == 0 {
				tc = h.Quick
			}
		}
		if tc.Skip {
			continue
		}
		fn := in.FindFunc(h.Pkg, h.Func)
		if fn == nil {
			why := ""
			for f, e := range dropped {
				why += fmt.Sprintf(" [dropped %s: %s]", filepath.Base(f), e)
			}
			inconclusive = append(inconclusive, fmt.Sprintf("%s: harness function %s.%s not available (harness file does not compile against this tree?)%s", h.Name, h.Pkg, h.Func, why))
			continue
		}
		if h.Solver == "" {
			h.Solver = "z3"
		}
		cfg := symex.ExploreConfig{Entry: fn, Workers: workers, MaxPaths: tc.MaxPaths, MaxSteps: h.MaxSteps,
			Solver: h.Solver, TimeoutMs: h.Timeout, Params: tc.Params, IntMode: h.Backend == "int", KeepFuncs: true, SampleModels: 3, StopOnViol: 25}
		if cfg.MaxPaths == 0 {
			cfg.MaxPaths = 400000
		}
		// wall-clock guard per harness: hitting it is INCONCLUSIVE, never a pass
		if tier == "thorough" {
			cfg.Deadline = time.Now().Add(90 * time.Minute)
		} else {
			cfg.Deadline = time.Now().Add(20 * time.Minute)
		}
		rep := &harnessReport{H: h, Tier: tc, Aborts: map[string]int{}, Reach: map[string]int{}, Funcs: map[string]bool{}}
		seenViol := map[string]int{}
		var v1 verdictCounts
		cfg.OnPath = func(p *symex.PathResult) {
			v1.add(p)
			rep.Paths++
			switch {
			case p.Outcome == "end":
				rep.Ended++
			case strings.HasPrefix(p.Outcome, "stop:"):
				rep.Stopped++
			case strings.HasPrefix(p.Outcome, "abort:"):
				r := p.Outcome
				if len(r) > 300 {
					r = r[:300]
				}
				rep.Aborts[r]++
			}
			for f := range p.Funcs {
				rep.Funcs[f] = true
			}
			for _, l := range p.Reach {
				rep.Reach[l]++
			}
			for _, a := range p.Asserts {
				switch a.Verdict {
				case "unsat":
					rep.Discharged++
				case "trivial":
					rep.Trivial++
				case "unknown":
					rep.Unknown++
				case "sat":
					key := a.Label + "|" + a.Known
					seenViol[key]++
					if seenViol[key] > 3 {
						continue
					}
					rr := &replayRec{Property: id, Harness: h.Name, Func: h.Func, Pkg: h.Pkg, Label: a.Label, Tier: tier,
						Inputs: a.Model, Params: tc.Params, Decs: p.Decisions, Known: a.Known}
					if a.Known != "" {
						rep.KnownHits = append(rep.KnownHits, rr)
					} else {
						rep.Viol = append(rep.Viol, rr)
					}
				}
			}
			if p.EndModel != nil && len(rep.Validate) < 3 {
				rep.Validate = append(rep.Validate, &replayRec{Property: id, Harness: h.Name, Func: h.Func, Pkg: h.Pkg, Label: "(end-of-path model)",
					Tier: tier, Inputs: p.EndModel, Params: tc.Params, Decs: p.Decisions})
			}
			if len(p.Asserts) > 0 {
				// keep the most informative paths as samples: most solver-decided assertions first
				score := 0
				for _, a := range p.Asserts {
					if a.Verdict == "unsat" || a.Verdict == "sat" {
						score += 10
					}
				}
				if p.EndModel != nil {
					score += 5
				}
				score += p.Queries / 10
				if len(rep.Samples) < 3 || score > rep.minSampleScore {
					as := []string{}
					for _, a := range p.Asserts {
						if len(as) < 12 {
							as = append(as, fmt.Sprintf("%s:%s(%.1fms)", a.Label, a.Verdict, a.Ms))
						}
					}
					smp := map[string]interface{}{"harness": h.Name, "decisions": p.Decisions, "outcome": firstLine(p.Outcome),
						"asserts": as, "assert_count": len(p.Asserts), "steps": p.Steps, "queries": p.Queries, "model_at_end": p.EndModel, "score": score}
					rep.Samples = append(rep.Samples, smp)
					sort.Slice(rep.Samples, func(i, j int) bool { return rep.Samples[i]["score"].(int) > rep.Samples[j]["score"].(int) })
					if len(rep.Samples) > 3 {
						rep.Samples = rep.Samples[:3]
					}
					rep.minSampleScore = rep.Samples[len(rep.Samples)-1]["score"].(int)
				}
			}
		}
		res := in.Explore(cfg)
		rep.Res = res
		// cross-solver pass (thorough tier): the whole harness is explored again with another
		// solver; path counts and verdict counts must agree, a disagreement blocks the claim.
		if (tier == "thorough" || os.Getenv("VERIF_CROSS") == "1") && !res.Truncated && res.Wall < 10*time.Minute {
			alt := "z3-new"
			if h.Solver == "z3-new" {
				alt = "z3"
				if h.Backend == "int" {
					alt = "cvc5"
				}
			}
			cfg2 := cfg
			cfg2.Solver = alt
			cfg2.KeepFuncs = false
			cfg2.SampleModels = 0
			cfg2.Deadline = time.Now().Add(3*res.Wall + 2*time.Minute)
			var v2 verdictCounts
			cfg2.OnPath = func(p *symex.PathResult) { v2.add(p) }
			res2 := in.Explore(cfg2)
			p1, u1, t1, s1, k1 := v1.paths, v1.unsat, v1.trivial, v1.sat, v1.unknown
			p2, u2, t2, s2, k2 := v2.paths, v2.unsat, v2.trivial, v2.sat, v2.unknown
			rep.Cross = fmt.Sprintf("%s: paths=%d unsat=%d trivial=%d sat=%d unknown=%d in %.1fs (primary %s: paths=%d unsat=%d trivial=%d sat=%d unknown=%d)",
				alt, p2, u2, t2, s2, k2, res2.Wall.Seconds(), cfg.Solver, p1, u1, t1, s1, k1)
			aborted2 := v2.aborted
			switch {
			case res2.Truncated || k2 > 0 || aborted2 > 0 || len(res2.SolverErrors) > 0:
				rep.Cross += " [second solver incomplete: no cross-check for this harness]"
			case p1 != p2 || u1+t1 != u2+t2 || s1 != s2:
				inconclusive = append(inconclusive, fmt.Sprintf("%s: cross-solver disagreement: %s", h.Name, rep.Cross))
			}
		}
		if res.Truncated && len(rep.Viol) == 0 {
			inconclusive = append(inconclusive, fmt.Sprintf("%s: path cap/deadline hit, exploration truncated", h.Name))
		}
		for r, n := range rep.Aborts {
			inconclusive = append(inconclusive, fmt.Sprintf("%s: %d path(s) %s", h.Name, n, firstLine(r)))
		}
		if rep.Unknown > 0 {
			inconclusive = append(inconclusive, fmt.Sprintf("%s: %d solver unknown/timeouts", h.Name, rep.Unknown))
		}
		if len(res.SolverErrors) > 0 {
			inconclusive = append(inconclusive, fmt.Sprintf("%s: solver errors: %v", h.Name, res.SolverErrors[0]))
		}
		minReach := h.MinReach
		if minReach == 0 {
			minReach = 1
		}
		nreach := 0
		for _, n := range rep.Reach {
			nreach += n
		}
		if len(rep.Viol) == 0 && len(rep.KnownHits) == 0 && (nreach < minReach || rep.Discharged+rep.Trivial == 0) {
			inconclusive = append(inconclusive, fmt.Sprintf("%s: vacuous (reach witnesses=%d, assertions discharged=%d)", h.Name, nreach, rep.Discharged+rep.Trivial))
		}
		if verbose {
			fmt.Fprintf(os.Stderr, "[%s] paths=%d ended=%d stopped=%d aborts=%d discharged=%d trivial=%d viol=%d known=%d queries=%d solver=%v wall=%v\n",
				h.Name, rep.Paths, rep.Ended, rep.Stopped, len(rep.Aborts), rep.Discharged, rep.Trivial, len(rep.Viol), len(rep.KnownHits), res.Queries, res.SolverTime.Round(time.Millisecond), res.Wall.Round(time.Millisecond))
		}
		reports = append(reports, rep)
	}

	// native replay of counterexamples + translator validation samples
	var all []*replayRec
	for _, r := range reports {
		if r.H.NoNative {
			continue
		}
		all = append(all, r.Viol...)
		all = append(all, r.KnownHits...)
		all = append(all, r.Validate...)
	}
	nativeErr := runNative(all, ov)
	if nativeErr != nil {
		inconclusive = append(inconclusive, "native replay infrastructure failed: "+nativeErr.Error())
	}

	exit := 0
	violations := 0
	validated := 0
	knownPrinted := map[string]bool{}
	os.MkdirAll(filepath.Join(verifDir, "replays", id), 0o755)
	for _, r := range reports {
		for _, v := range r.Validate {
			if r.H.NoNative {
				continue
			}
			if v.Result == "pass" || v.Result == "skipped" {
				validated++
			} else {
				inconclusive = append(inconclusive, fmt.Sprintf("%s: translator validation failed: engine says all assertions hold on path %v but native run reports %q", r.H.Name, v.Decs, v.Result))
			}
		}
		for _, v := range r.KnownHits {
			what := v.Known
			for _, k := range known {
				if k.ID == v.Known {
					what = k.ID + " " + k.What
				}
			}
			if r.H.NoNative || strings.HasPrefix(v.Result, "fail") {
				if !knownPrinted[v.Known] {
					fmt.Printf("KNOWN-FINDING: property=%s %s\n", id, what)
					knownPrinted[v.Known] = true
				}
				validated++
			} else {
				inconclusive = append(inconclusive, fmt.Sprintf("%s: known finding %s not reproduced natively (%s)", r.H.Name, v.Known, v.Result))
			}
		}
		for i, v := range r.Viol {
			path := filepath.Join(verifDir, "replays", id, fmt.Sprintf("%s-%s-%d.json", r.H.Name, sanitize(v.Label), i))
			jb, _ := json.MarshalIndent(v, "", " ")
			os.WriteFile(path, jb, 0o644)
			reproduced := r.H.NoNative || strings.HasPrefix(v.Result, "fail")
			if reproduced {
				if !r.H.NoNative && !strings.Contains(v.Result, v.Label) && !strings.HasPrefix(v.Label, "panic") {
					// a different assertion failed natively: still a reproduced failure of this harness
				}
				fmt.Printf("VIOLATION property=%s replay=%s\n", id, path)
				fmt.Printf("  harness=%s assertion=%q native=%s inputs=%s\n", r.H.Name, v.Label, v.Result, compactInputs(v.Inputs))
				violations++
				exit = 1
			} else {
				fmt.Printf("UNCONFIRMED property=%s harness=%s assertion=%q native=%s replay=%s\n", id, r.H.Name, v.Label, v.Result, path)
				inconclusive = append(inconclusive, fmt.Sprintf("%s: counterexample for %q not reproduced natively (%s)", r.H.Name, v.Label, v.Result))
			}
		}
	}
	evName := id
	if only != "" {
		evName = id + ".partial" // a single-harness debugging run must not replace the property's evidence
	}
	if repoDir != "/repo" {
		evName = id + ".scratch." + strconv.Itoa(os.Getpid()) + ".partial"
	}
	writeEvidence(evName, id, tier, seed, reports, inconclusive, violations, validated, time.Since(t0), loadDur)
	for _, m := range inconclusive {
		fmt.Printf("INCONCLUSIVE property=%s %s\n", id, m)
	}
	if exit == 0 && len(inconclusive) > 0 {
		exit = 2
	}
	tot := 0
	q := 0
	for _, r := range reports {
		tot += r.Paths
		q += r.Res.Queries
	}
	fmt.Printf("property=%s tier=%s harnesses=%d paths=%d queries=%d violations=%d inconclusive=%d wall=%.1fs\n", id, tier, len(reports), tot, q, violations, len(inconclusive), time.Since(t0).Seconds())
	return exit
}

type verdictCounts struct{ paths, unsat, trivial, sat, unknown, aborted int }

func (v *verdictCounts) add(p *symex.PathResult) {
	v.paths++
	if strings.HasPrefix(p.Outcome, "abort:") {
		v.aborted++
	}
	for _, a := range p.Asserts {
		switch a.Verdict {
		case "unsat":
			v.unsat++
		case "trivial":
			v.trivial++
		case "sat":
			v.sat++
		default:
			v.unknown++
		}
	}
}

func firstLine(s string) string {
	if i := strings.IndexByte(s, '\n'); i >= 0 {
		return s[:i]
	}
	return s
}

func compactInputs(m map[string]string) string {
	keys := make([]string, 0, len(m))
	for k := range m {
		keys = append(keys, k)
	}
	sort.Strings(keys)
	parts := []string{}
	for _, k := range keys {
		parts = append(parts, k+"="+m[k])
		if len(parts) >= 24 {
			parts = append(parts, "…")
			break
		}
	}
	return strings.Join(parts, " ")
}

var sanRe = regexp.MustCompile(`[^A-Za-z0-9]+`)

func sanitize(s string) string {
	s = sanRe.ReplaceAllString(s, "_")
	if len(s) > 40 {
		s = s[:40]
	}
	return s
}

// ---------------------------------------------------------------- native replay

var fnRe = regexp.MustCompile(`(?m)^func (VPH_\w+)\(\)`)

// runNative executes the given records with `go test -overlay` against
// the real build of /repo and fills rec.Result with pass | skipped | fail:<labels>.
func runNative(recs []*replayRec, ov map[string][]byte) error {
	if len(recs) == 0 {
		return nil
	}
	tmp, err := os.MkdirTemp("", "vp-replay-")
	if err != nil {
		return err
	}
	defer os.RemoveAll(tmp)
	byPkg := map[string][]*replayRec{}
	for _, r := range recs {
		byPkg[r.Pkg] = append(byPkg[r.Pkg], r)
	}
	// overlay: harness files + generated test file per package
	replace := map[string]string{}
	n := 0
	pkgDirFuncs := map[string][]string{}
	pkgDirName := map[string]string{}
	for path, content := range ov {
		n++
		real := filepath.Join(tmp, fmt.Sprintf("f%d.go", n))
		if err := os.WriteFile(real, content, 0o644); err != nil {
			return err
		}
		replace[path] = real
		dir := filepath.Dir(path)
		for _, m := range fnRe.FindAllStringSubmatch(string(content), -1) {
			pkgDirFuncs[dir] = append(pkgDirFuncs[dir], m[1])
		}
		for _, line := range strings.Split(string(content), "\n") {
			if strings.HasPrefix(line, "package ") {
				pkgDirName[dir] = strings.TrimSpace(strings.TrimPrefix(line, "package "))
				break
			}
		}
	}
	for dir, funcs := range pkgDirFuncs {
		sort.Strings(funcs)
		var sb strings.Builder
		fmt.Fprintf(&sb, "package %s\n\nimport (\n\t\"fmt\"\n\t\"os\"\n\t\"testing\"\n)\n\n", pkgDirName[dir])
		sb.WriteString("var vpHarnesses = map[string]func(){\n")
		for _, f := range funcs {
			fmt.Fprintf(&sb, "\t%q: %s,\n", f, f)
		}
		sb.WriteString("}\n\n")
		sb.WriteString(`func TestVPReplay(t *testing.T) {
	rs, err := vp_LoadReplays(os.Getenv("VP_REPLAYS"))
	if err != nil {
		t.Fatal(err)
	}
	for i, r := range rs {
		f := vpHarnesses[r.Harness]
		if f == nil {
			fmt.Printf("VP-RESULT %d error no-such-harness\n", i)
			continue
		}
		vp_SetReplay(r)
		fails, skipped, _ := vp_RunNative(f)
		switch {
		case len(fails) > 0:
			fmt.Printf("VP-RESULT %d fail %q\n", i, fails)
		case skipped:
			fmt.Printf("VP-RESULT %d skipped\n", i)
		default:
			fmt.Printf("VP-RESULT %d pass\n", i)
		}
	}
}
`)
		n++
		real := filepath.Join(tmp, fmt.Sprintf("f%d_test.go", n))
		if err := os.WriteFile(real, []byte(sb.String()), 0o644); err != nil {
			return err
		}
		replace[filepath.Join(dir, "zz_vp_replay_test.go")] = real
	}
	ovJSON, _ := json.Marshal(map[string]interface{}{"Replace": replace})
	ovPath := filepath.Join(tmp, "overlay.json")
	os.WriteFile(ovPath, ovJSON, 0o644)

	for pkg, rs := range byPkg {
		type nat struct {
			Harness string            `json:"harness"`
			Inputs  map[string]string `json:"inputs"`
			Params  map[string]int64  `json:"params"`
		}
		var batch []nat
		for _, r := range rs {
			batch = append(batch, nat{r.Func, r.Inputs, r.Params})
		}
		bj, _ := json.Marshal(batch)
		bpath := filepath.Join(tmp, "batch.json")
		os.WriteFile(bpath, bj, 0o644)
		cmd := exec.Command("go", "test", "-vet=off", "-count=1", "-run", "^TestVPReplay$", "-v", "-overlay", ovPath, pkg)
		cmd.Dir = repoDir
		cmd.Env = append(os.Environ(), "GOFLAGS=-mod=mod", "GOPROXY=off", "GOSUMDB=off", "GOTOOLCHAIN=local", "VP_REPLAYS="+bpath)
		out, err := runWithTimeout(cmd, 10*time.Minute)
		got := map[int]string{}
		for _, line := range strings.Split(out, "\n") {
			if strings.HasPrefix(line, "VP-RESULT ") {
				f := strings.SplitN(line, " ", 4)
				if len(f) >= 3 {
					i, _ := strconv.Atoi(f[1])
					res := f[2]
					if len(f) == 4 {
						res += ":" + f[3]
					}
					got[i] = res
				}
			}
		}
		for i, r := range rs {
			if res, ok := got[i]; ok {
				r.Result = res
			} else {
				// the test binary died (a real crash is a reproduced failure for panic labels)
				tail := out
				if len(tail) > 600 {
					tail = tail[len(tail)-600:]
				}
				if strings.Contains(out, "panic:") || strings.Contains(out, "fatal error:") {
					r.Result = "fail:crash " + strings.ReplaceAll(tail, "\n", " | ")
				} else {
					r.Result = "error:" + strings.ReplaceAll(tail, "\n", " | ")
					if err != nil {
						r.Result += " (" + err.Error() + ")"
					}
				}
			}
		}
	}
	return nil
}

func runWithTimeout(cmd *exec.Cmd, d time.Duration) (string, error) {
	var sb strings.Builder
	cmd.Stdout = &sb
	cmd.Stderr = &sb
	if err := cmd.Start(); err != nil {
		return "", err
	}
	done := make(chan error, 1)
	go func() { done <- cmd.Wait() }()
	select {
	case err := <-done:
		return sb.String(), err
	case <-time.After(d):
		cmd.Process.Kill()
		return sb.String(), fmt.Errorf("timeout")
	}
}

func doReplay(path string) int {
	b, err := os.ReadFile(path)
	if err != nil {
		fatal(2, "%v", err)
	}
	var r replayRec
	if err := json.Unmarshal(b, &r); err != nil {
		fatal(2, "%v", err)
	}
	ov, err := symex.ReadOverlayDir(filepath.Join(verifDir, "harness"), repoDir)
	if err != nil {
		fatal(2, "%v", err)
	}
	if err := runNative([]*replayRec{&r}, ov); err != nil {
		fatal(2, "%v", err)
	}
	if strings.HasPrefix(r.Result, "fail") {
		fmt.Printf("REPRODUCED property=%s harness=%s assertion=%q native=%s\n", r.Property, r.Harness, r.Label, r.Result)
		return 1
	}
	fmt.Printf("NOT-REPRODUCED property=%s harness=%s assertion=%q native=%s\n", r.Property, r.Harness, r.Label, r.Result)
	return 0
}

// ---------------------------------------------------------------- evidence

func writeEvidence(fileID, id, tier string, seed int, reports []*harnessReport, inconclusive []string, violations, validated int, wall, load time.Duration) {
	states, transitions := 0, 0
	var samples []interface{}
	funcs := map[string]bool{}
	var bounds, stubs []string
	assumptions := []string{
		"go/ssa (x/tools v0.29.0) builds SSA faithful to the Go spec; our interpreter's semantics of the instruction kinds used (cross-checked by native replay of end-of-path models)",
		"z3 4.8.12 answers (unsat = holds for every value on the path); any solver error/unknown is reported INCONCLUSIVE",
		"sequential semantics: goroutines run to completion at spawn (or, where a harness says so, when the spawner blocks), mutexes are held-bits; no claim about arbitrary schedules",
		"linux/amd64: int is 64 bits",
	}
	perHarness := []map[string]interface{}{}
	var solverS float64
	discharged, trivial := 0, 0
	for _, r := range reports {
		states += r.Paths
		transitions += r.Res.Queries
		solverS += r.Res.SolverTime.Seconds()
		discharged += r.Discharged
		trivial += r.Trivial
		for f := range r.Funcs {
			if strings.Contains(f, module) && !strings.Contains(f, "vp_") && !strings.Contains(f, "VPH_") && !strings.Contains(f, ".vp") {
				funcs[f] = true
			}
		}
		for i, s := range r.Samples {
			if i < 2 && len(samples) < 24 {
				samples = append(samples, s)
			}
		}
		if r.H.Bounds != "" {
			bounds = append(bounds, r.H.Name+": "+r.H.Bounds)
		}
		for _, s := range r.H.Stubs {
			stubs = append(stubs, r.H.Name+": "+s)
		}
		for _, a := range r.H.Assumes {
			assumptions = append(assumptions, r.H.Name+": "+a)
		}
		reach := []string{}
		for l, n := range r.Reach {
			reach = append(reach, fmt.Sprintf("%s×%d", l, n))
		}
		sort.Strings(reach)
		perHarness = append(perHarness, map[string]interface{}{
			"harness": r.H.Name, "entry": r.H.Pkg + "." + r.H.Func, "params": r.Tier.Params, "paths": r.Paths, "paths_ended": r.Ended,
			"paths_infeasible_or_assumed_away": r.Stopped, "aborted": len(r.Aborts), "assertions_unsat": r.Discharged,
			"assertions_concretely_true": r.Trivial, "solver_unknown": r.Unknown, "violations": len(r.Viol), "known_finding_hits": len(r.KnownHits),
			"queries": r.Res.Queries, "solver_s": round3(r.Res.SolverTime.Seconds()), "max_query_ms": round3(r.Res.MaxQueryMs),
			"wall_s": round3(r.Res.Wall.Seconds()), "reach_witnesses": reach, "truncated": r.Res.Truncated, "cross_solver": r.Cross,
		})
	}
	if len(samples) == 0 {
		samples = append(samples, map[string]interface{}{"note": "no path produced an assertion record"})
	}
	fl := make([]string, 0, len(funcs))
	for f := range funcs {
		fl = append(fl, f)
	}
	sort.Strings(fl)
	if states == 0 {
		states = 0
	}
	ev := map[string]interface{}{
		"property_id": id,
		"tier":        tier,
		"seed":        seed,
		"level":       "model_checking",
		"coverage": map[string]interface{}{
			"states":                        states,
			"transitions":                   transitions,
			"traces_validated_against_impl": validated,
			"samples":                       samples,
			"exhaustive":                    len(inconclusive) == 0,
			"explanation": "bounded symbolic execution of the real code (go/ssa of /repo's current tree) decided by z3; states = feasible execution paths explored " +
				"(each covers all values of its symbolic inputs), transitions = solver queries discharged, traces_validated_against_impl = native `go test -overlay` " +
				"replays of solver models (end-of-path models must pass natively; counterexamples must fail natively)",
			"functions_encoded":           fl,
			"harnesses":                   perHarness,
			"bounds":                      bounds,
			"stubs":                       stubs,
			"assertions_discharged_unsat": discharged,
			"assertions_concretely_true":  trivial,
			"inconclusive":                inconclusive,
			"solver":                      map[string]interface{}{"name": "z3 4.8.12 (z3 -in, incremental)", "time_s": round3(solverS)},
			"load_and_ssa_build_s":        round3(load.Seconds()),
		},
		"assumptions": assumptions,
		"wall_s":      round3(wall.Seconds()),
		"violations":  violations,
	}
	os.MkdirAll(filepath.Join(verifDir, "evidence"), 0o755)
	b, _ := json.MarshalIndent(ev, "", " ")
	os.WriteFile(filepath.Join(verifDir, "evidence", fileID+".json"), b, 0o644)
}

func round3(f float64) float64 { return float64(int64(f*1000+0.5)) / 1000 }

// blankDeclAt parses a harness source and blanks (keeping line numbers) the
// top-level declaration that contains the position "LINE:COL: message"; an
// unused import is removed as a single spec. It returns nil if the position
// cannot be attributed to one declaration.
func blankDeclAt(src []byte, pos string) ([]byte, string) {
	var ln int
	if _, err := fmt.Sscanf(pos, "%d:", &ln); err != nil || ln <= 0 {
		return nil, ""
	}
	fset := token.NewFileSet()
	f, err := parser.ParseFile(fset, "h.go", src, parser.ParseComments)
	if err != nil {
		return nil, ""
	}
	blank := func(from, to token.Pos) []byte {
		a, b := fset.Position(from).Offset, fset.Position(to).Offset
		out := append([]byte{}, src...)
		for i := a; i < b && i < len(out); i++ {
			if out[i] != '\n' {
				out[i] = ' '
			}
		}
		return out
	}
	for _, d := range f.Decls {
		if fset.Position(d.Pos()).Line > ln || fset.Position(d.End()).Line < ln {
			continue
		}
		switch d := d.(type) {
		case *ast.FuncDecl:
			from := d.Pos()
			if d.Doc != nil {
				from = d.Doc.Pos()
			}
			return blank(from, d.End()), "func " + d.Name.Name
		case *ast.GenDecl:
			if d.Tok == token.IMPORT {
				if len(d.Specs) == 1 {
					return blank(d.Pos(), d.End()), "import " + d.Specs[0].(*ast.ImportSpec).Path.Value
				}
				for _, sp := range d.Specs {
					if fset.Position(sp.Pos()).Line <= ln && ln <= fset.Position(sp.End()).Line {
						return blank(sp.Pos(), sp.End()), "import " + sp.(*ast.ImportSpec).Path.Value
					}
				}
				return nil, ""
			}
			for _, sp := range d.Specs {
				if fset.Position(sp.Pos()).Line <= ln && ln <= fset.Position(sp.End()).Line {
					name := "decl"
					switch sp := sp.(type) {
					case *ast.ValueSpec:
						name = "var " + sp.Names[0].Name
					case *ast.TypeSpec:
						name = "type " + sp.Name.Name
					}
					if len(d.Specs) == 1 {
						return blank(d.Pos(), d.End()), name
					}
					return blank(sp.Pos(), sp.End()), name
				}
			}
		}
	}
	return nil, ""
}
