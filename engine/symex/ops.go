package symex

import (
	"fmt"
	"go/constant"
	"go/token"
	"go/types"
	"math"
	"math/big"
	"unicode/utf8"

	"golang.org/x/tools/go/ssa"

	"verif/engine/smt"
)

func constValue(c *ssa.Const) Value {
	if c.Value == nil {
		return zero(c.Type())
	}
	if t, ok := c.Type().Underlying().(*types.Basic); ok {
		ki := basicInfo(t)
		switch {
		case ki.isBool:
			return smt.ConstBool(constant.BoolVal(c.Value))
		case ki.isInt:
			if ki.signed {
				return smt.ConstBV(ki.w, uint64(c.Int64()))
			}
			return smt.ConstBV(ki.w, c.Uint64())
		case ki.isFloat:
			return smt.ConstFP(c.Float64())
		case ki.isString:
			if c.Value.Kind() == constant.String {
				return mkStr(constant.StringVal(c.Value))
			}
			return mkStr(string(rune(c.Int64())))
		}
		if t.Kind() == types.Complex128 || t.Kind() == types.Complex64 {
			return c.Complex128()
		}
	}
	panic(fmt.Sprintf("constValue: %s", c))
}

func intConst(v int64) *smt.Term { return smt.ConstBV(64, uint64(v)) }

// asInt returns the concrete value of an integer term.
func asInt(v Value) (int64, bool) {
	t, ok := v.(*smt.Term)
	if !ok || !t.IsConst() || t.Sort.K != smt.SBV {
		return 0, false
	}
	return int64(t.C), true
}

// index checks 0 <= idx < n (forking on a feasible violation) and
// concretises idx.
func (p *Path) index(idx *smt.Term, signed bool, n int) int {
	w := idx.Sort.W
	var inRange *smt.Term
	if w < 64 {
		idx = smt.Resize(idx, 64, signed)
	}
	// unsigned compare handles negatives too
	inRange = smt.ULt(idx, smt.ConstBV(64, uint64(n)))
	p.mustHold(inRange, fmt.Sprintf("index out of range [?] with length %d", n))
	return int(p.concretize(idx, true, "index"))
}

// indexRead reads element idx of a sequence without forking when the
// index is symbolic and the elements are scalars (ITE chain).
func (p *Path) indexRead(idx *smt.Term, signed bool, n int, get func(int) Value) Value {
	if idx.IsConst() {
		return get(p.index(idx, signed, n))
	}
	if idx.Sort.W < 64 {
		idx = smt.Resize(idx, 64, signed)
	}
	p.mustHold(smt.ULt(idx, smt.ConstBV(64, uint64(n))), fmt.Sprintf("index out of range [?] with length %d", n))
	if n <= 256 && n > 0 {
		if first, ok := get(0).(*smt.Term); ok {
			res := first
			okAll := true
			for i := n - 1; i >= 1; i-- {
				_, ok := get(i).(*smt.Term)
				if !ok {
					okAll = false
					break
				}
			}
			if okAll {
				res = get(n - 1).(*smt.Term)
				for i := n - 2; i >= 0; i-- {
					res = smt.Ite(smt.Eq(idx, smt.ConstBV(64, uint64(i))), get(i).(*smt.Term), res)
				}
				return res
			}
		}
	}
	return get(int(p.concretize(idx, true, "index")))
}

func (p *Path) strIndex(s Str, idx *smt.Term, signed bool) Value {
	p.needShape(s, "index")
	return p.indexRead(idx, signed, s.length(), func(i int) Value { return s.at(i) })
}

func (p *Path) needShape(s Str, what string) {
	if !s.shapeKnown() {
		p.abortf("%s of a string whose contents are not modelled (%s)", what, s)
	}
}

func (p *Path) strLen(s Str) *smt.Term {
	if s.opq != nil {
		return s.opq
	}
	if s.tok != nil && s.tok.Format == "%d" && s.tok.Arg != nil && !s.tok.Signed {
		// decimal length of an unsigned number: fork over the digit count
		n := s.tok.Arg
		pow := new(big.Int).SetInt64(1)
		for k := 1; k <= 20; k++ {
			pow.Mul(pow, big.NewInt(10))
			var c *smt.Term
			if n.Sort.K == smt.SInt {
				c = smt.ILt(n, smt.ConstInt(pow))
			} else if pow.IsUint64() && pow.Uint64() <= mask64(n.Sort.W) {
				c = smt.ULt(n, smt.ConstBV(n.Sort.W, pow.Uint64()))
			} else {
				c = smt.True
			}
			if p.branch(c) {
				return intConst(int64(k))
			}
		}
	}
	if s.tok != nil || s.approx {
		p.abortf("len of unmodelled string %s", s)
	}
	return intConst(int64(s.length()))
}

// sliceBounds resolves lo/hi/max against length n and capacity c.
func (p *Path) sliceBounds(lo, hi, max Value, n, c int) (int, int, int) {
	l, h, m := 0, n, c
	get := func(v Value, what string) *smt.Term {
		t := v.(*smt.Term)
		if t.Sort.W < 64 {
			t = smt.Resize(t, 64, true)
		}
		return t
	}
	var lt, ht, mt *smt.Term
	lt = intConst(0)
	ht = intConst(int64(n))
	mt = intConst(int64(c))
	if max != nil {
		mt = get(max, "max")
	}
	if hi != nil {
		ht = get(hi, "high")
	}
	if lo != nil {
		lt = get(lo, "low")
	}
	// 0 <= lo <= hi <= max <= cap   (unsigned compares catch negatives)
	p.mustHold(smt.ULe(mt, intConst(int64(c))), fmt.Sprintf("slice bounds out of range [::?] with capacity %d", c))
	p.mustHold(smt.ULe(ht, mt), "slice bounds out of range [:?] with capacity/max")
	p.mustHold(smt.ULe(lt, ht), "slice bounds out of range [?:?]")
	l = int(p.concretize(lt, true, "slice low"))
	h = int(p.concretize(ht, true, "slice high"))
	m = int(p.concretize(mt, true, "slice max"))
	return l, h, m
}

func (p *Path) slice(xt types.Type, x, lo, hi, max Value) Value {
	switch x := x.(type) {
	case Str:
		if x.opq != nil || x.tok != nil || x.approx {
			p.abortf("slicing unmodelled string")
		}
		n := x.length()
		// a symbolic upper bound on a string: keep the length symbolic instead
		// of forking over every value; the contents become unobservable.
		if hi != nil {
			hi = p.resolve(hi.(*smt.Term))
		}
		if lo != nil {
			lo = p.resolve(lo.(*smt.Term))
		}
		if ht, ok := hi.(*smt.Term); ok && !ht.IsConst() && (lo == nil || lo.(*smt.Term).IsConst()) && hasFP(ht) {
			l := int64(0)
			if lo != nil {
				l, _ = asInt(lo)
			}
			if ht.Sort.W < 64 {
				ht = smt.Resize(ht, 64, true)
			}
			p.mustHold(smt.And(smt.ULe(intConst(l), ht), smt.ULe(ht, intConst(int64(n)))), "slice bounds out of range [:?] of string")
			return Str{opq: smt.BVSub(ht, intConst(l))}
		}
		l, h, _ := p.sliceBounds(lo, hi, nil, n, n)
		if x.sym != nil {
			return strFromTerms(x.sym[l:h])
		}
		return mkStr(x.c[l:h])
	case []Value:
		l, h, m := p.sliceBounds(lo, hi, max, len(x), cap(x))
		return x[l:h:m]
	case *Value: // *array
		if x == nil {
			panic(targetPanic{msg: "nil pointer dereference (slice of *array)"})
		}
		a := (*x).(Array)
		l, h, m := p.sliceBounds(lo, hi, max, len(a), len(a))
		return []Value(a)[l:h:m]
	}
	panic(fmt.Sprintf("slice: unexpected X type: %T", x))
}

func (p *Path) lookup(instr *ssa.Lookup, x, idx Value) Value {
	switch x := x.(type) {
	case *Map:
		var v Value
		var ok bool
		if x != nil {
			v, ok = p.mapGet(x, idx)
		}
		if !ok {
			v = zero(instr.X.Type().Underlying().(*types.Map).Elem())
		} else {
			v = copyVal(v)
		}
		if instr.CommaOk {
			return Tuple{v, smt.ConstBool(ok)}
		}
		return v
	case Str:
		return p.strIndex(x, idx.(*smt.Term), basicInfo(instr.Index.Type()).signed)
	}
	panic(fmt.Sprintf("unexpected instr.X type in Lookup: %T", x))
}

// equals returns a boolean term for Go's == on values of type t.
func (p *Path) equals(t types.Type, x, y Value) *smt.Term {
	switch x := x.(type) {
	case *smt.Term:
		yt := y.(*smt.Term)
		if x.Sort.K == smt.SFP {
			return smt.FPEq(x, yt)
		}
		if x.Sort.K == smt.SInt || yt.Sort.K == smt.SInt {
			return smt.Eq(p.toInt(x), p.toInt(yt))
		}
		return smt.Eq(x, yt)
	case Str:
		return p.strEq(x, y.(Str))
	case *Value:
		return smt.ConstBool(x == y.(*Value))
	case *RxVal:
		return smt.ConstBool(x == y.(*RxVal))
	case *Chan:
		return smt.ConstBool(x == y.(*Chan))
	case *Map:
		return smt.ConstBool(x == y.(*Map))
	case Struct:
		ys := y.(Struct)
		ts := t.Underlying().(*types.Struct)
		r := smt.True
		for i := 0; i < ts.NumFields(); i++ {
			if ts.Field(i).Name() == "_" {
				continue
			}
			r = smt.And(r, p.equals(ts.Field(i).Type(), x[i], ys[i]))
		}
		return r
	case Array:
		ya := y.(Array)
		te := t.Underlying().(*types.Array).Elem()
		r := smt.True
		for i := range x {
			r = smt.And(r, p.equals(te, x[i], ya[i]))
		}
		return r
	case Iface:
		yi := y.(Iface)
		if !sameType(x.T, yi.T) {
			return smt.False
		}
		if x.T == nil {
			return smt.True
		}
		return p.equals(x.T, x.V, yi.V)
	case *ssa.Function:
		if yf, ok := y.(*ssa.Function); ok {
			return smt.ConstBool(x == yf)
		}
		return smt.False
	case *Closure:
		if yc, ok := y.(*Closure); ok {
			return smt.ConstBool(x == yc)
		}
		return smt.False
	case complex128:
		return smt.ConstBool(x == y.(complex128))
	}
	panic(fmt.Sprintf("comparing uncomparable type %s (%T)", t, x))
}

func (p *Path) strEq(a, b Str) *smt.Term {
	if a.isConcrete() && b.isConcrete() {
		return smt.ConstBool(a.c == b.c)
	}
	if !a.shapeKnown() || !b.shapeKnown() {
		// comparison with "" only needs the length
		if b.isConcrete() && b.c == "" && a.opq != nil {
			return smt.Eq(a.opq, intConst(0))
		}
		if a.isConcrete() && a.c == "" && b.opq != nil {
			return smt.Eq(b.opq, intConst(0))
		}
		p.abortf("comparison of unmodelled strings")
	}
	if a.length() != b.length() {
		return smt.False
	}
	r := smt.True
	for i := 0; i < a.length(); i++ {
		r = smt.And(r, smt.Eq(a.at(i), b.at(i)))
	}
	return r
}

// strLess returns a < b (lexicographic, bytewise).
func (p *Path) strLess(a, b Str) *smt.Term {
	if a.isConcrete() && b.isConcrete() {
		return smt.ConstBool(a.c < b.c)
	}
	p.needShape(a, "compare")
	p.needShape(b, "compare")
	n := a.length()
	if b.length() < n {
		n = b.length()
	}
	// from the end: less_i = a[i]<b[i] || (a[i]==b[i] && less_{i+1})
	res := smt.ConstBool(a.length() < b.length())
	for i := n - 1; i >= 0; i-- {
		res = smt.Or(smt.ULt(a.at(i), b.at(i)), smt.And(smt.Eq(a.at(i), b.at(i)), res))
	}
	return res
}

func (p *Path) strConcat(a, b Str) Str {
	if a.isConcrete() && b.isConcrete() {
		return mkStr(a.c + b.c)
	}
	if a.approx || b.approx {
		return Str{c: a.String() + b.String(), approx: true}
	}
	if a.isConcrete() && a.c == "" {
		return b
	}
	if b.isConcrete() && b.c == "" {
		return a
	}
	p.needShape(a, "concat")
	p.needShape(b, "concat")
	return strFromTerms(append(append([]*smt.Term{}, a.bytesT()...), b.bytesT()...))
}

func (p *Path) binop(op token.Token, xt, yt types.Type, x, y Value) Value {
	switch op {
	case token.EQL, token.NEQ:
		var r *smt.Term
		if isNilConst(x, xt) || isNilConst(y, yt) || isRefNilCompare(xt) {
			r = smt.ConstBool(p.eqnil(xt, x, y))
		} else {
			r = p.equals(xt, x, y)
		}
		if op == token.NEQ {
			r = smt.Not(r)
		}
		return r
	}
	ki := basicInfo(xt)
	switch {
	case ki.isString:
		a, b := x.(Str), y.(Str)
		switch op {
		case token.ADD:
			return p.strConcat(a, b)
		case token.LSS:
			return p.strLess(a, b)
		case token.GTR:
			return p.strLess(b, a)
		case token.LEQ:
			return smt.Not(p.strLess(b, a))
		case token.GEQ:
			return smt.Not(p.strLess(a, b))
		}
	case ki.isBool:
		a, b := x.(*smt.Term), y.(*smt.Term)
		switch op {
		case token.AND, token.LAND:
			return smt.And(a, b)
		case token.OR, token.LOR:
			return smt.Or(a, b)
		case token.XOR:
			return smt.Not(smt.Eq(a, b))
		}
	case ki.isFloat:
		if ki.w != 64 {
			p.abortf("float32 arithmetic unsupported")
		}
		if _, ok := x.(XF); ok || isXF(y) {
			a, b := p.toXF(x), p.toXF(y)
			switch op {
			case token.QUO:
				return p.xfQuo(a, b)
			case token.ADD:
				return p.xfAddSub(a, b, false)
			case token.SUB:
				return p.xfAddSub(a, b, true)
			case token.MUL:
				return p.xfMul(a, b)
			case token.LSS:
				return p.xfCmp(a, b, true)
			case token.LEQ:
				return p.xfCmp(a, b, false)
			case token.GTR:
				return p.xfCmp(b, a, true)
			case token.GEQ:
				return p.xfCmp(b, a, false)
			case token.EQL:
				return smt.And(p.xfCmp(a, b, false), p.xfCmp(b, a, false))
			case token.NEQ:
				return smt.Not(smt.And(p.xfCmp(a, b, false), p.xfCmp(b, a, false)))
			}
			p.abortf("Int back end: float operation %s is not lowered", op)
		}
		a, b := x.(*smt.Term), y.(*smt.Term)
		switch op {
		case token.ADD:
			return smt.FPAdd(a, b)
		case token.SUB:
			return smt.FPSub(a, b)
		case token.MUL:
			return smt.FPMul(a, b)
		case token.QUO:
			return smt.FPDiv(a, b)
		case token.LSS:
			return smt.FPLt(a, b)
		case token.LEQ:
			return smt.FPLe(a, b)
		case token.GTR:
			return smt.FPLt(b, a)
		case token.GEQ:
			return smt.FPLe(b, a)
		}
	case ki.isInt:
		if isIntSort(x) || isIntSort(y) {
			return p.intBinop(op, ki, x, y)
		}
		a, b := x.(*smt.Term), y.(*smt.Term)
		switch op {
		case token.SHL, token.SHR:
			kb := basicInfo(yt)
			if kb.signed {
				p.mustHold(smt.SLe(smt.ConstBV(b.Sort.W, 0), b), "negative shift amount")
			}
			// bring the count to a's width, saturating
			cnt := b
			w := a.Sort.W
			if b.Sort.W > w {
				big := smt.ULe(smt.ConstBV(b.Sort.W, uint64(w)), b)
				cnt = smt.Ite(big, smt.ConstBV(w, uint64(w)), smt.Extract(b, w-1, 0))
			} else if b.Sort.W < w {
				cnt = smt.ZeroExt(b, w)
			}
			if op == token.SHL {
				return smt.BVShl(a, cnt)
			}
			if ki.signed {
				return smt.BVAShr(a, cnt)
			}
			return smt.BVLShr(a, cnt)
		}
		if a.Sort != b.Sort {
			panic(fmt.Sprintf("binop %s: operand sorts differ %v %v", op, a.Sort, b.Sort))
		}
		switch op {
		case token.ADD:
			return smt.BVAdd(a, b)
		case token.SUB:
			return smt.BVSub(a, b)
		case token.MUL:
			return smt.BVMul(a, b)
		case token.QUO, token.REM:
			p.mustHold(smt.Not(smt.Eq(b, smt.ConstBV(b.Sort.W, 0))), "integer divide by zero")
			if ki.signed {
				if op == token.QUO {
					return smt.BVSDiv(a, b)
				}
				return smt.BVSRem(a, b)
			}
			if op == token.QUO {
				return smt.BVUDiv(a, b)
			}
			return smt.BVURem(a, b)
		case token.AND:
			return smt.BVAnd(a, b)
		case token.OR:
			return smt.BVOr(a, b)
		case token.XOR:
			return smt.BVXor(a, b)
		case token.AND_NOT:
			return smt.BVAnd(a, smt.BVNot(b))
		case token.LSS:
			if ki.signed {
				return smt.SLt(a, b)
			}
			return smt.ULt(a, b)
		case token.LEQ:
			if ki.signed {
				return smt.SLe(a, b)
			}
			return smt.ULe(a, b)
		case token.GTR:
			if ki.signed {
				return smt.SLt(b, a)
			}
			return smt.ULt(b, a)
		case token.GEQ:
			if ki.signed {
				return smt.SLe(b, a)
			}
			return smt.ULe(b, a)
		}
	}
	panic(fmt.Sprintf("invalid binary op: %T %s %T (type %s)", x, op, y, xt))
}

func isNilConst(v Value, t types.Type) bool {
	if b, ok := t.(*types.Basic); ok && b.Kind() == types.UntypedNil {
		return true
	}
	return false
}

func isRefNilCompare(t types.Type) bool {
	switch t.Underlying().(type) {
	case *types.Slice, *types.Map, *types.Signature:
		return true
	}
	return false
}

// eqnil compares reference-like values where one side is nil.
func (p *Path) eqnil(t types.Type, x, y Value) bool {
	isNil := func(v Value) bool {
		switch v := v.(type) {
		case nil:
			return true
		case []Value:
			return v == nil
		case *Map:
			return v == nil
		case *Value:
			return v == nil
		case *Chan:
			return v == nil
		case *ssa.Function:
			return v == nil
		case *Closure:
			return v == nil
		case *ssa.Builtin:
			return v == nil
		case Iface:
			return v.T == nil
		case *RxVal:
			return v == nil
		}
		panic(fmt.Sprintf("eqnil: %T", v))
	}
	return isNil(x) && isNil(y)
}

func (p *Path) unop(fr *frame, instr *ssa.UnOp, x Value) Value {
	switch instr.Op {
	case token.ARROW:
		ch := x.(*Chan)
		v, ok := p.chanRecv(ch)
		if instr.CommaOk {
			return Tuple{v, smt.ConstBool(ok)}
		}
		return v
	case token.SUB:
		t := x.(*smt.Term)
		if t.Sort.K == smt.SFP {
			return smt.FPNeg(t)
		}
		return smt.BVNeg(t)
	case token.MUL:
		ptr := x.(*Value)
		if ptr == nil {
			panic(targetPanic{msg: "nil pointer dereference"})
		}
		return load(deref(instr.X.Type()), ptr)
	case token.NOT:
		return smt.Not(x.(*smt.Term))
	case token.XOR:
		return smt.BVNot(x.(*smt.Term))
	}
	panic(fmt.Sprintf("invalid unary op %s %T", instr.Op, x))
}

func (p *Path) typeAssert(instr *ssa.TypeAssert, itf Iface) Value {
	var v Value
	err := ""
	if itf.T == nil {
		err = fmt.Sprintf("interface conversion: interface is nil, not %s", instr.AssertedType)
	} else if idst, ok := instr.AssertedType.Underlying().(*types.Interface); ok {
		v = itf
		if meth, _ := types.MissingMethod(itf.T, idst, true); meth != nil {
			err = fmt.Sprintf("interface conversion: %v is not %v: missing method %s", itf.T, idst, meth.Name())
		}
	} else if types.Identical(itf.T, instr.AssertedType) {
		v = itf.V
	} else {
		err = fmt.Sprintf("interface conversion: interface is %s, not %s", itf.T, instr.AssertedType)
	}
	if err != "" {
		if !instr.CommaOk {
			panic(targetPanic{msg: err})
		}
		return Tuple{zero(instr.AssertedType), smt.False}
	}
	if instr.CommaOk {
		return Tuple{v, smt.True}
	}
	return v
}

func (p *Path) conv(tDst, tSrc types.Type, x Value) Value {
	ut_src := tSrc.Underlying()
	ut_dst := tDst.Underlying()

	switch ut_dst.(type) {
	case *types.Signature, *types.Map, *types.Chan, *types.Struct, *types.Array:
		return x
	case *types.Pointer:
		switch x := x.(type) {
		case *Value:
			return x
		}
		p.abortf("unsafe pointer conversion %s -> %s", tSrc, tDst)
	case *types.Slice:
		switch x := x.(type) {
		case []Value:
			return x
		case Str:
			// string -> []byte / []rune
			eb := ut_dst.(*types.Slice).Elem().Underlying().(*types.Basic)
			p.needShape(x, "convert to slice")
			if eb.Kind() == types.Byte {
				bs := x.bytesT()
				r := make([]Value, len(bs))
				for i, b := range bs {
					r[i] = b
				}
				return r
			}
			if !x.isConcrete() {
				p.abortf("[]rune of symbolic string")
			}
			var r []Value
			for _, ru := range x.c {
				r = append(r, smt.ConstBV(32, uint64(ru)))
			}
			return r
		}
	case *types.Basic:
		kd := basicInfo(ut_dst)
		if kd.isString {
			switch x := x.(type) {
			case Str:
				return x
			case []Value:
				// []byte or []rune -> string
				eb := ut_src.(*types.Slice).Elem().Underlying().(*types.Basic)
				if eb.Kind() == types.Byte {
					ts := make([]*smt.Term, len(x))
					for i, e := range x {
						ts[i] = e.(*smt.Term)
					}
					return strFromTerms(ts)
				}
				var rs []rune
				for _, e := range x {
					c, ok := asInt(e)
					if !ok {
						p.abortf("string([]rune) with symbolic rune")
					}
					rs = append(rs, rune(c))
				}
				return mkStr(string(rs))
			case *smt.Term:
				c, ok := asInt(x)
				if !ok {
					p.abortf("string(rune) with symbolic rune")
				}
				ks := basicInfo(ut_src)
				if ks.signed {
					w := x.Sort.W
					c = int64(c<<uint(64-w)) >> uint(64-w)
				}
				if c < 0 || c > utf8.MaxRune {
					return mkStr("�")
				}
				return mkStr(string(rune(c)))
			}
		}
		if ut_dst.(*types.Basic).Kind() == types.UnsafePointer {
			p.abortf("conversion to unsafe.Pointer")
		}
		ks := basicInfo(ut_src)
		if xf, ok := x.(XF); ok {
			switch {
			case kd.isFloat && kd.w == 64:
				return xf
			case kd.isInt && !kd.signed:
				d := p.xfToIntegral(xf, 4).exact
				if p.branch(smt.ILe(pow2(kd.w), d)) {
					p.abortf("float->int conversion out of range (implementation-defined in Go)")
				}
				return d
			}
			p.abortf("Int back end: conversion %s -> %s not lowered", tSrc, tDst)
		}
		t, ok := x.(*smt.Term)
		if !ok {
			p.abortf("unsupported conversion %s -> %s (%T)", tSrc, tDst, x)
		}
		if t.Sort.K == smt.SInt {
			switch {
			case kd.isInt && !kd.signed && !ks.signed && kd.w >= ks.w:
				return t
			case kd.isInt && !kd.signed:
				return smt.IMod(t, pow2(kd.w))
			case kd.isFloat && kd.w == 64 && !ks.signed:
				return p.xfFromUint(t)
			}
			p.abortf("Int back end: conversion %s -> %s not lowered", tSrc, tDst)
		}
		switch {
		case kd.isInt && ks.isInt:
			return smt.Resize(t, kd.w, ks.signed)
		case kd.isFloat && ks.isInt:
			if kd.w != 64 {
				p.abortf("float32 unsupported")
			}
			if ks.signed {
				return smt.SToFP(t)
			}
			return smt.UToFP(t)
		case kd.isInt && ks.isFloat:
			if t.IsConst() {
				f := math.Trunc(t.F)
				if kd.signed {
					return smt.ConstBV(kd.w, uint64(int64(f)))
				}
				return smt.ConstBV(kd.w, uint64(f))
			}
			// Go: result is implementation-defined when out of range. Make that a checked condition.
			var lo, hi float64
			if kd.signed {
				lo, hi = -math.Ldexp(1, kd.w-1)-1, math.Ldexp(1, kd.w-1)
			} else {
				lo, hi = -1, math.Ldexp(1, kd.w)
			}
			inr := smt.And(smt.FPLt(smt.ConstFP(lo), t), smt.FPLt(t, smt.ConstFP(hi)))
			if !p.branch(inr) {
				p.abortf("float->int conversion out of range (implementation-defined in Go)")
			}
			return smt.FPToBV(t, kd.w, kd.signed)
		case kd.isFloat && ks.isFloat:
			if kd.w != 64 || ks.w != 64 {
				p.abortf("float32 unsupported")
			}
			return t
		case kd.isBool && ks.isBool:
			return t
		}
	}
	p.abortf("unsupported conversion %s -> %s (%T)", tSrc, tDst, x)
	return nil
}

// ---------------------------------------------------------------- builtins

func (p *Path) callBuiltin(caller *frame, callpos token.Pos, fn *ssa.Builtin, args []Value) Value {
	switch fn.Name() {
	case "append":
		if len(args) == 1 {
			return args[0]
		}
		if s, ok := args[1].(Str); ok {
			// append([]byte, string...)
			p.needShape(s, "append")
			dst := args[0].([]Value)
			for _, b := range s.bytesT() {
				dst = append(dst, b)
			}
			return dst
		}
		src := args[1].([]Value)
		dst := args[0].([]Value)
		for _, e := range src {
			dst = append(dst, copyVal(e))
		}
		return dst

	case "copy":
		dst := args[0].([]Value)
		if s, ok := args[1].(Str); ok {
			p.needShape(s, "copy")
			bs := s.bytesT()
			n := len(bs)
			if len(dst) < n {
				n = len(dst)
			}
			for i := 0; i < n; i++ {
				dst[i] = bs[i]
			}
			return intConst(int64(n))
		}
		src := args[1].([]Value)
		n := len(src)
		if len(dst) < n {
			n = len(dst)
		}
		tmp := make([]Value, n)
		for i := 0; i < n; i++ {
			tmp[i] = copyVal(src[i])
		}
		copy(dst, tmp)
		return intConst(int64(n))

	case "close":
		ch := args[0].(*Chan)
		if ch == nil {
			panic(targetPanic{msg: "close of nil channel"})
		}
		if ch.closed {
			panic(targetPanic{msg: "close of closed channel"})
		}
		ch.closed = true
		return nil

	case "delete":
		m := args[0].(*Map)
		if m != nil {
			p.mapDelete(m, args[1])
		}
		return nil

	case "print", "println":
		return nil

	case "len":
		switch x := args[0].(type) {
		case Str:
			return p.strLen(x)
		case Array:
			return intConst(int64(len(x)))
		case *Value:
			return intConst(int64(len((*x).(Array))))
		case []Value:
			return intConst(int64(len(x)))
		case *Map:
			if x == nil {
				return intConst(0)
			}
			return intConst(int64(x.len()))
		case *Chan:
			if x == nil {
				return intConst(0)
			}
			return intConst(int64(len(x.q)))
		}
		panic(fmt.Sprintf("len: illegal operand: %T", args[0]))

	case "cap":
		switch x := args[0].(type) {
		case Array:
			return intConst(int64(cap(x)))
		case *Value:
			return intConst(int64(len((*x).(Array))))
		case []Value:
			return intConst(int64(cap(x)))
		case *Chan:
			return intConst(int64(x.cap))
		}
		panic(fmt.Sprintf("cap: illegal operand: %T", args[0]))

	case "min", "max":
		ki := basicInfo(fn.Type().(*types.Signature).Params().At(0).Type())
		res := args[0]
		for _, a := range args[1:] {
			var less *smt.Term
			x, y := res.(*smt.Term), a.(*smt.Term)
			switch {
			case ki.isInt && ki.signed:
				less = smt.SLt(y, x)
			case ki.isInt:
				less = smt.ULt(y, x)
			default:
				p.abortf("min/max on non-integer")
			}
			if fn.Name() == "max" {
				less = smt.Not(smt.Or(less, smt.Eq(x, y)))
			}
			res = smt.Ite(less, y, x)
		}
		return res

	case "panic":
		panic(targetPanic{v: args[0], msg: p.panicMessage(caller, args[0])})

	case "recover":
		return Iface{}

	case "ssa:wrapnilchk":
		recv := args[0]
		if ptr, ok := recv.(*Value); ok && ptr == nil {
			panic(targetPanic{msg: "value method called using nil pointer"})
		}
		return recv
	case "clear":
		switch x := args[0].(type) {
		case *Map:
			if x != nil {
				x.entries = nil
			}
		case []Value:
			p.abortf("clear(slice) unsupported")
		}
		return nil
	}
	panic("unknown built-in: " + fn.Name())
}

// ---------------------------------------------------------------- channels

func (p *Path) chanSend(ch *Chan, v Value) {
	if ch == nil {
		p.abortf("send on nil channel (would block forever)")
	}
	if ch.closed {
		panic(targetPanic{msg: "send on closed channel"})
	}
	if len(ch.q) >= ch.cap+p.chanSlack {
		p.abortf("send on full channel would block (sequential semantics)")
	}
	ch.q = append(ch.q, copyVal(v))
}

func (p *Path) chanRecv(ch *Chan) (Value, bool) {
	if ch == nil {
		p.abortf("receive on nil channel (would block forever)")
	}
	if len(ch.q) > 0 {
		v := ch.q[0]
		ch.q = ch.q[1:]
		return v, true
	}
	if ch.closed {
		return zero(ch.elemT), false
	}
	// lazy schedule: the receiver blocks, so the pending goroutines get to run
	for len(p.pendingGo) > 0 {
		p.runPendingOne()
		if len(ch.q) > 0 {
			v := ch.q[0]
			ch.q = ch.q[1:]
			return v, true
		}
		if ch.closed {
			return zero(ch.elemT), false
		}
	}
	// In the sequential semantics every goroutine that could send has
	// already run to completion, so this receive would block forever.
	panic(targetPanic{msg: "receive on empty channel: would block forever (deadlock) in sequential semantics"})
}

// ---------------------------------------------------------------- range

type iter interface {
	next(p *Path) Tuple
}

type mapIter struct {
	m *Map
	i int
	// snapshot of keys at start
	keys []Value
}

func (it *mapIter) next(p *Path) Tuple {
	for it.i < len(it.keys) {
		k := it.keys[it.i]
		it.i++
		if v, ok := p.mapGet(it.m, k); ok {
			return Tuple{smt.True, k, copyVal(v)}
		}
	}
	return Tuple{smt.False, nil, nil}
}

type strIter struct {
	s string
	i int
}

func (it *strIter) next(p *Path) Tuple {
	if it.i >= len(it.s) {
		return Tuple{smt.False, intConst(0), smt.ConstBV(32, 0)}
	}
	r, n := utf8.DecodeRuneInString(it.s[it.i:])
	t := Tuple{smt.True, intConst(int64(it.i)), smt.ConstBV(32, uint64(r))}
	it.i += n
	return t
}

func (p *Path) rangeIter(x Value, t types.Type) iter {
	switch x := x.(type) {
	case *Map:
		it := &mapIter{m: x}
		if x != nil {
			for _, e := range x.entries {
				it.keys = append(it.keys, e.k)
			}
		}
		return it
	case Str:
		if !x.isConcrete() {
			// ASCII-only symbolic strings iterate bytewise; anything else is unsupported
			p.needShape(x, "range")
			for i := 0; i < x.length(); i++ {
				p.mustAssumeASCII(x.at(i))
			}
			return &symStrIter{s: x}
		}
		return &strIter{s: x.c}
	}
	panic(fmt.Sprintf("cannot range over %T", x))
}

type symStrIter struct {
	s Str
	i int
}

func (it *symStrIter) next(p *Path) Tuple {
	if it.i >= it.s.length() {
		return Tuple{smt.False, intConst(0), smt.ConstBV(32, 0)}
	}
	t := Tuple{smt.True, intConst(int64(it.i)), smt.ZeroExt(it.s.at(it.i), 32)}
	it.i++
	return t
}

// mustAssumeASCII aborts unless byte b is known to be < 0x80.
func (p *Path) mustAssumeASCII(b *smt.Term) {
	c := smt.ULt(b, smt.ConstBV(8, 0x80))
	if v, ok := p.decided(c); ok && v {
		return
	}
	r := p.check(smt.Not(c))
	p.sess.PopCheck()
	if r != smt.Unsat {
		p.abortf("range over string with possibly non-ASCII symbolic bytes")
	}
}

// hasFP reports whether t depends on a floating-point sub-term (such bounds
// are expensive to enumerate, so string slices keep their length symbolic).
func hasFP(t *smt.Term) bool {
	if t.Sort.K == smt.SFP {
		return true
	}
	for _, a := range t.Args {
		if hasFP(a) {
			return true
		}
	}
	return false
}

func isXF(v Value) bool { _, ok := v.(XF); return ok }

// toXF views a float value as an exact dyadic: XF itself, or a constant
// double holding an integer.
func (p *Path) toXF(v Value) XF {
	switch v := v.(type) {
	case XF:
		return v
	case *smt.Term:
		if v.Sort.K == smt.SFP && v.IsConst() {
			return p.xfConst(v.F)
		}
	}
	p.abortf("Int back end: float operand is neither lowered nor an integer constant")
	return XF{}
}

func mask64(w int) uint64 {
	if w >= 64 {
		return ^uint64(0)
	}
	return uint64(1)<<uint(w) - 1
}

// runPendingOne runs the oldest pending goroutine (lazy schedule) to completion.
func (p *Path) runPendingOne() {
	g := p.pendingGo[0]
	p.pendingGo = p.pendingGo[1:]
	g()
}
