package counts

// H-human (C12): Humaner.FormatNumber for every uint64, both prefix systems.
// Run with the Int back end: n is a mathematical integer in [0, 2^64), the two
// float operations are lowered to exact rounding constraints (DESIGN B.1) and
// Sprintf("%.Nf") is the contract "exact value, rounded half to even".

// vpHumaner returns a copy of one of the two exported Humaners (every report
// item holds its own copy; the exported variables themselves are never written).
func vpHumaner() *Humaner {
	var h Humaner
	if vp_Choice("system", 2) == 0 {
		h = Metric
	} else {
		h = Binary
	}
	return &h
}

// The specification's own prefix tables (powers of 1000 for counts, of 1024 for
// bytes) - deliberately not read from the implementation's Humaner.
var vpSpecNames = [2][]string{{"", "k", "M", "G", "T", "P"}, {"", "Ki", "Mi", "Gi", "Ti", "Pi"}}
var vpSpecMult = [2][]uint64{
	{1, 1e3, 1e6, 1e9, 1e12, 1e15},
	{1, 1 << 10, 1 << 20, 1 << 30, 1 << 40, 1 << 50},
}

// vpSystem tells which of the two exported Humaners h is (by its name, "metric" or "binary").
func vpSystem(h *Humaner) int {
	if h.Name() == "binary" {
		return 1
	}
	return 0
}

// vpClass locates the prefix the real code chose from the unit string.
func vpClass(h *Humaner, unitString string) int {
	for i, name := range vpSpecNames[vpSystem(h)] {
		if name+"B" == unitString {
			return i
		}
	}
	return -1
}

func VPH_human() {
	h := vpHumaner()
	n := vp_U64("n")
	numeral, unitString := h.FormatNumber(n, "B")
	j := vpClass(h, unitString)
	vp_Assert(j >= 0, "unit = prefix + unit")
	if j < 0 {
		return
	}
	M := vpSpecMult[vpSystem(h)][j]
	zn, zM := vp_ZU(n), vp_ZU(M)
	// (2) the prefix is the largest one not exceeding the value
	if j > 0 {
		vp_Assert(vp_ZLe(zM, zn), "prefix multiplier <= value")
	}
	if j+1 < len(vpSpecMult[vpSystem(h)]) {
		vp_Assert(vp_ZLt(zn, vp_ZU(vpSpecMult[vpSystem(h)][j+1])), "no larger prefix fits")
	}
	N := vp_TokDecimals(numeral)
	d := vp_TokScaled(numeral) // numeral denotes d / 10^N
	if j == 0 {
		// (3) below the first prefix the value is printed exactly
		vp_Assert(N == 0, "no decimals without a prefix")
		vp_Assert(vp_ZEq(d, zn), "values below the first prefix are printed exactly")
		vp_Reach("exact")
		return
	}
	// (1) |d*M - n*10^N| <= M/2   (half a unit of the last displayed digit)
	err2 := vp_ZMul(vp_ZU(2), vp_ZAbs(vp_ZSub(vp_ZMul(d, zM), vp_ZMul(zn, vp_ZPow10(N)))))
	// KF-f: for n >= 2^53 float64(n) and the quotient are each rounded before %.Nf
	// rounds a third time; the excess over half a unit is bounded by the two
	// relative errors of 2^-53: at most 18447 * 2^-51 < 2^-32 units. Only a
	// failure of that magnitude is the known finding; a larger error is not.
	vp_KnownRegion("KF-f", vp_And(n >= 1<<53, vp_ZLe(err2, vp_ZAdd(zM, vp_ZU(M>>32)))))
	vp_Assert(vp_ZLe(err2, zM), "numeral x multiplier within half a unit of the last digit")
	vp_KnownRegionEnd("KF-f")
	// (4) at least three significant digits; (6) the numeral stays inside its class,
	// so that the rendered magnitude is ordered across classes
	vp_Assert(vp_ZLe(vp_ZU(100), d), "at least three significant digits")
	switch N {
	case 2, 1:
		vp_Assert(vp_ZLe(d, vp_ZU(1000)), "numeral within its precision class")
	case 0:
		if j+1 < len(vpSpecMult[vpSystem(h)]) {
			vp_Assert(vp_ZLe(vp_ZMul(d, zM), vp_ZU(vpSpecMult[vpSystem(h)][j+1])), "numeral does not exceed the next prefix")
		}
	default:
		vp_Fail("0, 1 or 2 decimals")
	}
	// (5) at most five characters
	if N > 0 {
		vp_Assert(vp_ZLe(d, vp_ZU(9999)), "at most five characters (d.dd / dd.d / ddd.d)")
	} else {
		vp_Assert(vp_ZLe(d, vp_ZU(99999)), "at most five characters")
	}
	vp_Reach("prefixed")
}

// VPH_humanMonotone: within one prefix and precision class a larger value
// never prints a smaller numeral (with VPH_human's class bounds this gives
// monotonicity of the rendered magnitude over all uint64).
func VPH_humanMonotone() {
	h := vpHumaner()
	n1, n2 := vp_U64("n1"), vp_U64("n2")
	vp_Assume(vp_ZLt(vp_ZU(n1), vp_ZU(n2)))
	num1, u1 := h.FormatNumber(n1, "B")
	num2, u2 := h.FormatNumber(n2, "B")
	if u1 != u2 || vp_TokDecimals(num1) != vp_TokDecimals(num2) {
		vp_Reach("different-class")
		return
	}
	vp_Assert(vp_ZLe(vp_TokScaled(num1), vp_TokScaled(num2)), "n1 < n2 => numeral(n1) <= numeral(n2) within a class")
	vp_Reach("same-class")
}

// VPH_formatOverflow (C05): a saturated counter is rendered as the infinity
// sign, anything else as a numeral.
func VPH_formatOverflow() {
	h := vpHumaner()
	var numeral, unit string
	var saturated bool
	if vp_Choice("width", 2) == 0 {
		c := Count32(vp_U32("c32"))
		saturated = uint64(c) == 1<<32-1
		numeral, unit = h.Format(c, "B")
	} else {
		c := Count64(vp_U64("c64"))
		saturated = uint64(c) == 1<<64-1
		numeral, unit = h.Format(c, "B")
	}
	if vp_IsTok(numeral) {
		vp_Assert(!saturated, "a numeral is printed only for unsaturated values")
		vp_Reach("numeral")
	} else {
		vp_Assert(saturated && numeral == "\u221e" && unit == "B", "saturated: infinity sign")
		vp_Reach("infinity")
	}
}

type vpHumanVec struct {
	n            uint64
	number, unit string
}

// the vectors of the repository's own TestMetric / TestBinary (human_test.go)
var vpMetricVectors = []vpHumanVec{
	{0, "0", "cd"}, {1, "1", "cd"}, {999, "999", "cd"}, {1000, "1.00", "kcd"}, {1094, "1.09", "kcd"}, {1096, "1.10", "kcd"},
	{9990, "9.99", "kcd"}, {9999, "10.00", "kcd"}, {10000, "10.0", "kcd"}, {10060, "10.1", "kcd"}, {99999, "100.0", "kcd"},
	{100000, "100", "kcd"}, {999999, "1000", "kcd"}, {1000000, "1.00", "Mcd"}, {9999999, "10.00", "Mcd"}, {10000000, "10.0", "Mcd"},
	{99999999, "100.0", "Mcd"}, {100000000, "100", "Mcd"}, {999999999, "1000", "Mcd"}, {1000000000, "1.00", "Gcd"},
	{9999999999, "10.00", "Gcd"}, {10000000000, "10.0", "Gcd"}, {99999999999, "100.0", "Gcd"}, {100000000000, "100", "Gcd"},
	{999999999999, "1000", "Gcd"}, {1000000000000, "1.00", "Tcd"}, {999999999999999, "1000", "Tcd"}, {1000000000000000, "1.00", "Pcd"},
	{999999999999999999, "1000", "Pcd"}, {1000000000000000000, "1000", "Pcd"}, {9999999999999999999, "10000", "Pcd"},
	{10000000000000000000, "10000", "Pcd"}, {12345678900000000000, "12346", "Pcd"}, {0xffffffffffffffff, "18447", "Pcd"},
}
var vpBinaryVectors = []vpHumanVec{
	{0, "0", "B"}, {1, "1", "B"}, {1023, "1023", "B"}, {1024, "1.00", "KiB"}, {1234, "1.21", "KiB"}, {1048575, "1024", "KiB"},
	{1048576, "1.00", "MiB"}, {1073741823, "1024", "MiB"}, {1073741824, "1.00", "GiB"}, {1099511627775, "1024", "GiB"},
	{1099511627776, "1.00", "TiB"}, {1125899906842623, "1024", "TiB"}, {1125899906842624, "1.00", "PiB"},
	{1152921504606846975, "1024", "PiB"}, {1152921504606846976, "1024", "PiB"}, {0xffffffffffffffff, "16384", "PiB"},
}

// VPH_humanVectors: translator validation. The repository's own test vectors
// are pushed through the *lowered* encoding (n is a solver variable pinned to
// the vector's value, so the rounding constraints - not native floats -
// produce the numeral); the solver must prove that the numeral is the
// expected one.
func VPH_humanVectors() {
	var hc Humaner
	h := &hc
	var vec vpHumanVec
	unit := "cd"
	if vp_Choice("system", 2) == 0 {
		hc, vec = Metric, vpMetricVectors[vp_Choice("vector", len(vpMetricVectors))]
	} else {
		hc, vec, unit = Binary, vpBinaryVectors[vp_Choice("vector", len(vpBinaryVectors))], "B"
	}
	n := vp_U64("n")
	vp_Assume(vp_ZEq(vp_ZU(n), vp_ZU(vec.n)))
	numeral, unitString := h.FormatNumber(n, unit)
	vp_Assert(unitString == vec.unit, "unit as in the repository's test")
	wantN := vp_TokDecimals(vec.number)
	vp_Assert(vp_TokDecimals(numeral) == wantN, "decimals as in the repository's test")
	vp_Assert(vp_ZEq(vp_TokScaled(numeral), vpTokScaledConst(vec.number)), "numeral as in the repository's test")
	vp_Reach("end")
}

// vpTokScaledConst parses a concrete numeral (harness side, both modes).
func vpTokScaledConst(s string) vpZ {
	v := uint64(0)
	for i := 0; i < len(s); i++ {
		if s[i] != '.' {
			v = v*10 + uint64(s[i]-'0')
		}
	}
	return vp_ZU(v)
}

// VPH_humanSequence (C12): the rendering of a value does not depend on what the
// same Humaner rendered before (each report item holds its own copy, but any
// copy may be used repeatedly).
func VPH_humanSequence() {
	var h Humaner
	if vp_Choice("system", 2) == 0 {
		h = Metric
	} else {
		h = Binary
	}
	first := []uint64{5000000, 999, 1 << 60, 1023, 1 << 40}[vp_Choice("first", 5)]
	h.FormatNumber(first, "B")
	// optionally a second earlier rendering (up, down, then anything)
	if k := vp_Choice("second", 5); k > 0 {
		h.FormatNumber([]uint64{500, 2000000, 1 << 30, 0}[k-1], "B")
	}
	n := vp_U64("n")
	numeral, unitString := h.FormatNumber(n, "B")
	j := vpClass(&h, unitString)
	vp_Assert(j >= 0, "unit = prefix + unit")
	if j < 0 {
		return
	}
	M := vpSpecMult[vpSystem(&h)][j]
	zn, zM := vp_ZU(n), vp_ZU(M)
	if j > 0 {
		vp_Assert(vp_ZLe(zM, zn), "prefix multiplier <= value (after an earlier rendering)")
	}
	if j+1 < len(vpSpecMult[vpSystem(&h)]) {
		vp_Assert(vp_ZLt(zn, vp_ZU(vpSpecMult[vpSystem(&h)][j+1])), "no larger prefix fits (after an earlier rendering)")
	}
	N := vp_TokDecimals(numeral)
	d := vp_TokScaled(numeral)
	if j == 0 {
		vp_Assert(N == 0 && vp_ZEq(d, zn), "values below the first prefix are printed exactly (after an earlier rendering)")
		vp_Reach("exact")
		return
	}
	vp_Assert(vp_ZLe(vp_ZU(100), d), "at least three significant digits (after an earlier rendering)")
	vp_Reach("prefixed")
}
