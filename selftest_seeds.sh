#!/bin/bash
# Regression test of the checks themselves: applies every seeded change to a scratch worktree of
# /repo HEAD (outside /repo and /verif, removed afterwards; /repo itself is not touched), runs the
# check of the property it was seeded for (quick tier unless meta.json names another) against that
# worktree (VERIF_REPO_SCRATCH: such runs never write the property's evidence file), and compares the
# exit code with the one recorded in seeded/<id>/meta.json. Not a registered check.
# usage: ./selftest_seeds.sh [-j N] [pattern]      e.g. ./selftest_seeds.sh -j 3 C06
cd "$(dirname "$0")"
jobs=1
if [ "$1" = "-j" ]; then jobs=$2; shift 2; fi
pat=$1
scratch=$(mktemp -d /tmp/vp_selftest.XXXXXX)
one() {
  d=$1; scratch=$2
  id=$(basename $d)
  prop=$(python3 -c "import json;print(json.load(open('$d/meta.json'))['property'])")
  want=$(python3 -c "import json;print(json.load(open('$d/meta.json'))['detected_by']['exit'])")
  tier=$(python3 -c "import json;print(json.load(open('$d/meta.json'))['detected_by'].get('tier','quick'))")
  wt=$scratch/$id
  git -C /repo worktree add -q --detach $wt HEAD 2>/dev/null || { echo "FAIL $id: cannot create worktree"; return 1; }
  if ! git -C $wt apply "$PWD/$d/patch.diff" 2>/dev/null; then
    echo "FAIL $id: patch does not apply to /repo HEAD"; git -C /repo worktree remove --force $wt; return 1
  fi
  out=$(VERIF_REPO_SCRATCH=$wt timeout 7200 ./check $prop --tier $tier 2>&1); rc=$?
  git -C /repo worktree remove --force $wt
  first=$(echo "$out" | grep -m1 '^  harness=' | sed 's/ native=.*//' | cut -c1-160)
  if [ "$rc" = "$want" ]; then echo "ok   $id ($prop) exit=$rc $first"; else echo "FAIL $id ($prop) exit=$rc, recorded $want $first"; return 1; fi
}
export -f one
ls -d seeded/*${pat}*/ | xargs -P $jobs -I{} bash -c 'one {} '$scratch | tee $scratch.log
fail=$(grep -c '^FAIL' $scratch.log)
rm -rf $scratch $scratch.log; git -C /repo worktree prune
rm -f evidence/*.scratch.*.partial.json
[ "$fail" = 0 ]
