package git

import (
	"bufio"
	"bytes"
	"context"
	"fmt"
	"io"
	"os"
	"os/exec"
	"strings"

	"github.com/github/go-pipe/pipe"
)

// H-pipeline (C16 listing parsers on truncated output, C10): the real reader
// stages of the three pipelines (the closures inside NewObjectIter,
// NewBatchObjectIter and NewReferenceIter) are captured at pipe.Function /
// pipe.LinewiseFunction and run on every truncation of a valid git output.
// A truncated stream must never crash the reader, and what it delivers must
// be exactly the complete records (a partial record is never invented).

type vpStages struct {
	waitErr  error // what the pipeline reports when it is waited for (a git process that failed)
	funcs    map[string]pipe.StageFunc
	linewise map[string]pipe.LinewiseStageFunc
}

// vpGitFailure: what Pipeline.Wait reports for a git process that failed, in the
// shapes the real library produces: 1 a plain error, 2 a wrapped *exec.ExitError
// of a process that died silently (killed, or non-zero without a word on
// stderr), 3 one that said "fatal: ..." on stderr. 0 = git succeeded.
func vpGitFailure(kind int) error {
	switch kind {
	case 1:
		return io.ErrUnexpectedEOF
	case 2:
		return fmt.Errorf("git-rev-list: %w", &exec.ExitError{ProcessState: &os.ProcessState{}})
	case 3:
		return fmt.Errorf("git-cat-file: %w", &exec.ExitError{ProcessState: &os.ProcessState{}, Stderr: []byte("fatal: bad object HEAD\n")})
	}
	return nil
}

func vpCaptureStages() *vpStages {
	st := &vpStages{funcs: map[string]pipe.StageFunc{}, linewise: map[string]pipe.LinewiseStageFunc{}}
	vp_Stub("github.com/github/go-pipe/pipe.Function", func(name string, f pipe.StageFunc) pipe.Stage {
		st.funcs[name] = f
		return nil
	})
	vp_Stub("github.com/github/go-pipe/pipe.LinewiseFunction", func(name string, f pipe.LinewiseStageFunc) pipe.Stage {
		st.linewise[name] = f
		return nil
	})
	vp_Stub("github.com/github/go-pipe/pipe.CommandStage", func(name string, cmd *exec.Cmd) pipe.Stage { return nil })
	vp_Stub("(*github.com/github/go-pipe/pipe.Pipeline).Add", func(p *pipe.Pipeline, stages ...pipe.Stage) {})
	vp_Stub("(*github.com/github/go-pipe/pipe.Pipeline).Start", func(p *pipe.Pipeline, ctx context.Context) error { return nil })
	vp_Stub("(*github.com/github/go-pipe/pipe.Pipeline).Wait", func(p *pipe.Pipeline) error { return st.waitErr })
	vp_Stub("(*github.com/github/git-sizer/git.Repository).GitCommand", func(r *Repository, args ...string) *exec.Cmd { return &exec.Cmd{} })
	vp_ChanSlack(16)
	return st
}

func VPH_pipelineCheck() {
	if vp_Native() {
		vp_Reach("end")
		return
	}
	st := vpCaptureStages()
	ctx := context.Background()
	repo := &Repository{gitDir: ".", gitBin: "git"}
	id1, id2 := vpHexID(0x42), vpHexID(0x43)
	full := id1 + " blob 123456\n" + id2 + " tree 345\n"
	cut := vp_Choice("cut", len(full)+1)
	data := full[:cut]
	complete := strings.Count(data, "\n")

	iter, err := repo.NewObjectIter(ctx)
	vp_Assert(err == nil && iter != nil, "NewObjectIter")
	parse := st.funcs["object-parser"]
	vp_Assert(parse != nil, "the header reader stage exists")
	if parse == nil || iter == nil {
		return
	}
	var serr error
	panicked := vp_Catch(func() { serr = parse(ctx, pipe.Env{}, strings.NewReader(data), nil) })
	vp_Assert(!panicked, "the header reader does not crash on truncated cat-file --batch-check output")
	if panicked {
		return
	}
	atBoundary := cut == 0 || data[cut-1] == '\n'
	// (reporting a listing that stops in the middle of a line as an error is acceptable; the
	// complete lines before it must not be what fails)
	vp_Assert(serr == nil || !atBoundary, "a listing of complete lines is read without error")
	failure := vp_Choice("git-failed", 4)
	gitFailed := failure != 0
	st.waitErr = vpGitFailure(failure)
	var got []BatchHeader
	for {
		h, ok, nerr := iter.Next()
		if !ok {
			vp_Assert((nerr != nil) == gitFailed, "the end of the stream carries the pipeline's verdict: a failed git process is an error")
			break
		}
		got = append(got, h)
	}
	vp_Assert(len(got) == complete, "exactly the complete lines are delivered; a partial line is never turned into a header")
	if len(got) >= 1 {
		vp_Assert(got[0].OID == vpOIDOf(id1) && got[0].ObjectType == "blob" && uint64(got[0].ObjectSize) == 123456, "first header intact")
	}
	if len(got) >= 2 {
		vp_Assert(got[1].OID == vpOIDOf(id2) && got[1].ObjectType == "tree" && uint64(got[1].ObjectSize) == 345, "second header intact")
	}
	// the oid copier between rev-list and cat-file, whichever kind of stage implements it:
	// truncated lines, ordinary lines, and very long paths (rev-list prints the full path)
	runCopier := func(input string) (string, error, bool) {
		var out bytes.Buffer
		var cerr error
		var crashed bool
		if cp := st.linewise["copy-oids"]; cp != nil {
			w := bufio.NewWriter(&out)
			crashed = vp_Catch(func() {
				for _, line := range strings.Split(strings.TrimSuffix(input, "\n"), "\n") {
					if cerr = cp(ctx, pipe.Env{}, []byte(line), w); cerr != nil {
						return
					}
				}
			})
			w.Flush()
			return out.String(), cerr, crashed
		}
		if cf := st.funcs["copy-oids"]; cf != nil {
			crashed = vp_Catch(func() { cerr = cf(ctx, pipe.Env{}, strings.NewReader(input), &out) })
			return out.String(), cerr, crashed
		}
		vp_Fail("the oid copier stage exists")
		return "", nil, true
	}
	line := id1 + " path/to/file"
	lcut := vp_Choice("linecut", len(line)+1)
	got1, cerr, crashed := runCopier(line[:lcut] + "\n")
	vp_Assert(!crashed, "the oid copier does not crash on a truncated rev-list line")
	if !crashed {
		if lcut < 40 {
			vp_Assert(cerr != nil && got1 == "", "a line too short for an object id is an error, nothing is forwarded")
		} else {
			vp_Assert(cerr == nil && got1 == id1+"\n", "exactly the object id is forwarded")
		}
	}
	if lcut == len(line) {
		for _, plen := range []int{100, 4000, 4096, 5000, 70000} {
			long := id1 + " " + strings.Repeat("d/", plen/2) + "\n" + id2 + " x\n"
			got2, cerr2, crashed2 := runCopier(long)
			vp_Assert(!crashed2 && cerr2 == nil, "paths of any length are accepted")
			vp_Assert(got2 == id1+"\n"+id2+"\n", "the object ids are forwarded unchanged whatever the path length")
		}
	}
	vp_Reach("end")
}

func VPH_pipelineBatch() {
	if vp_Native() {
		vp_Reach("end")
		return
	}
	st := vpCaptureStages()
	ctx := context.Background()
	repo := &Repository{gitDir: ".", gitBin: "git"}
	id1, id2 := vpHexID(0x42), vpHexID(0x43)
	obj1, obj2 := "hello\n", "tree "+vpHexID(0x44)+"\n"
	full := id1 + " blob 6\n" + obj1 + "\n" + id2 + " commit 46\n" + obj2 + "\n"
	cut := vp_Choice("cut", len(full)+1)
	data := full[:cut]
	end1 := len(id1) + len(" blob 6\n") + len(obj1) + 1
	complete := 0
	if cut >= end1 {
		complete = 1
	}
	if cut == len(full) {
		complete = 2
	}
	iter, err := repo.NewBatchObjectIter(ctx)
	vp_Assert(err == nil && iter != nil, "NewBatchObjectIter")
	read := st.funcs["object-reader"]
	vp_Assert(read != nil, "the object reader stage exists")
	if read == nil || iter == nil {
		return
	}
	var serr error
	panicked := vp_Catch(func() { serr = read(ctx, pipe.Env{}, strings.NewReader(data), nil) })
	vp_Assert(!panicked, "the object reader does not crash on truncated cat-file --batch output")
	if panicked {
		return
	}
	// a stream that ends inside an object's contents is an error; at a record boundary or inside a header line it is EOF
	midHeader1 := cut < len(id1)+len(" blob 6\n")
	midHeader2 := cut >= end1 && cut < end1+len(id2)+len(" commit 46\n")
	switch {
	case cut == 0 || cut == end1 || cut == len(full):
		vp_Assert(serr == nil, "ending at a record boundary is end-of-stream")
	case midHeader1 || midHeader2:
		// a stream that stops inside a header line: dropping the partial line or reporting it are both fine
	default:
		vp_Assert(serr != nil, "ending inside an object's contents is reported as an error")
	}
	failure := vp_Choice("git-failed", 4)
	st.waitErr = vpGitFailure(failure)
	var got []ObjectRecord
	for {
		o, ok, nerr := iter.Next()
		if !ok {
			vp_Assert((nerr != nil) == (failure != 0), "the end of the stream carries the pipeline's verdict: a failed git process is an error")
			break
		}
		got = append(got, o)
	}
	vp_Assert(len(got) == complete, "exactly the complete objects are delivered")
	if len(got) >= 1 {
		vp_Assert(got[0].OID == vpOIDOf(id1) && string(got[0].Data) == obj1, "first object intact, trailing LF stripped")
	}
	if len(got) >= 2 {
		vp_Assert(got[1].OID == vpOIDOf(id2) && string(got[1].Data) == obj2 && got[1].ObjectType == "commit", "second object intact")
	}
	vp_Reach("end")
}

func VPH_pipelineRefs() {
	if vp_Native() {
		vp_Reach("end")
		return
	}
	st := vpCaptureStages()
	ctx := context.Background()
	repo := &Repository{gitDir: ".", gitBin: "git"}
	id1, id2 := vpHexID(0x42), vpHexID(0x43)
	// reference names may end in bytes that look like white space to Unicode-aware trimming
	name1 := []string{"refs/heads/main", "refs/heads/rel\u3000", "refs/heads/nb\u00a0", "refs/heads/x\u0085", "refs/heads/\u2003in\u2003"}[vp_Choice("name", 5)]
	full := id1 + " commit 200 " + name1 + "\n" + id2 + " tag 150 refs/tags/v1\n"
	cut := vp_Choice("cut", len(full)+1)
	data := full[:cut]
	complete := strings.Count(data, "\n")
	// (NewReferenceIter waits for the pipeline in a goroutine of its own: the verdict must be known before)
	failure := vp_Choice("git-failed", 4)
	st.waitErr = vpGitFailure(failure)
	iter, err := repo.NewReferenceIter(ctx)
	vp_Assert(err == nil && iter != nil, "NewReferenceIter")
	parse := st.funcs["parse-refs"]
	vp_Assert(parse != nil, "the reference reader stage exists")
	if parse == nil || iter == nil {
		return
	}
	var serr error
	panicked := vp_Catch(func() { serr = parse(ctx, pipe.Env{}, io.Reader(strings.NewReader(data)), nil) })
	vp_Assert(!panicked, "the reference reader does not crash on truncated for-each-ref output")
	if panicked {
		return
	}
	vp_Assert(serr == nil || !(cut == 0 || data[cut-1] == '\n'), "a listing of complete lines is read without error")
	var got []Reference
	for {
		r, ok, nerr := iter.Next()
		if !ok {
			vp_Assert((nerr != nil) == (failure != 0), "the end of the stream carries the pipeline's verdict: a failed git process is an error")
			break
		}
		got = append(got, r)
	}
	vp_Assert(len(got) == complete, "exactly the complete lines are delivered; a partial line is never turned into a reference")
	if len(got) >= 1 {
		vp_Assert(got[0].Refname == name1 && got[0].OID == vpOIDOf(id1) && got[0].ObjectType == "commit" && uint64(got[0].ObjectSize) == 200, "first reference intact, name bytes exact")
	}
	if len(got) >= 2 {
		vp_Assert(got[1].Refname == "refs/tags/v1" && got[1].OID == vpOIDOf(id2) && got[1].ObjectType == "tag", "second reference intact")
	}
	vp_Reach("end")
}

// VPH_pipelineBatchFill: streams of several small objects whose cumulative
// size (contents + the LF cat-file appends) lands exactly on, one below and
// one above 4 KiB and 64 KiB - the places where a reader that manages its own
// buffers is most likely to be off by one.
func VPH_pipelineBatchFill() {
	if vp_Native() {
		vp_Reach("end")
		return
	}
	st := vpCaptureStages()
	ctx := context.Background()
	repo := &Repository{gitDir: ".", gitBin: "git"}
	target := []int{4096, 65536}[vp_Choice("boundary", 2)]
	k := []int{1, 2, 4, 5, 8}[vp_Choice("objects", 5)] // (1: a single object of about the boundary's size)
	kind := []string{"blob", "commit", "tag"}[vp_Choice("kind", 3)]
	body := func(n int) string {
		// commits and tags look like objects: a header block, a blank line, a long message
		if kind != "blob" && n >= 8 {
			return "key v\n\n" + strings.Repeat("x", n-7)
		}
		return strings.Repeat("x", n)
	}
	delta := vp_Choice("delta", 3) - 1 // the last object ends at boundary-1, boundary, boundary+1
	each := target/k - 1               // k objects of (each+1) bytes fill the target when k divides it
	var sizes []int
	sum := 0
	for i := 0; i < k-1; i++ {
		sizes = append(sizes, each)
		sum += each + 1
	}
	last := target - sum - 1 + delta
	if k == 1 {
		last += 2 // a single object of boundary, boundary+1, boundary+2 bytes: strictly above 4 KiB / 64 KiB
	}
	sizes = append(sizes, last, 3) // and one more small object afterwards
	var sb strings.Builder
	for i, n := range sizes {
		sb.WriteString(vpHexID(byte(0x50+i)) + " " + kind + " " + vpItoa(n) + "\n")
		sb.WriteString(body(n))
		sb.WriteString("\n")
	}
	iter, err := repo.NewBatchObjectIter(ctx)
	read := st.funcs["object-reader"]
	vp_Assert(err == nil && iter != nil && read != nil, "NewBatchObjectIter")
	if read == nil || iter == nil {
		return
	}
	var serr error
	panicked := vp_Catch(func() { serr = read(ctx, pipe.Env{}, strings.NewReader(sb.String()), nil) })
	vp_Assert(!panicked, "the object reader does not crash, whatever the sizes add up to")
	if panicked {
		return
	}
	vp_Assert(serr == nil, "a complete stream is read without error")
	for i, n := range sizes {
		o, ok, _ := iter.Next()
		vp_Assert(ok && o.OID == vpOIDOf(vpHexID(byte(0x50+i))) && len(o.Data) == n && uint64(o.ObjectSize) == uint64(n), "every object is delivered with exactly its bytes")
		if ok && n > 0 && len(o.Data) == n {
			vp_Assert(string(o.Data) == body(n), "contents intact, however large the object (its size is measured from them)")
		}
	}
	_, more, _ := iter.Next()
	vp_Assert(!more, "nothing after the last object")
	vp_Reach("end")
}

func vpItoa(n int) string {
	if n == 0 {
		return "0"
	}
	var b [20]byte
	i := len(b)
	for n > 0 {
		i--
		b[i] = byte('0' + n%10)
		n /= 10
	}
	return string(b[i:])
}

// VPH_pipelineRequests (C01, C03): what the scan feeds through the real
// AddRoot / RequestObject / Close reaches git's stdin exactly: one line per
// object id, in order, nothing else; and ResolveObject returns exactly the
// object git names.
func VPH_pipelineRequests() {
	if vp_Native() {
		vp_Reach("end")
		return
	}
	st := vpCaptureStages()
	ctx := context.Background()
	repo := &Repository{gitDir: ".", gitBin: "git"}
	k := vp_Choice("oids", 4)
	var want strings.Builder
	which := vp_Choice("pipeline", 2)
	var feed func(OID) error
	var closeFn func()
	var stage pipe.StageFunc
	if which == 0 {
		it, err := repo.NewObjectIter(ctx)
		vp_Assert(err == nil && it != nil, "NewObjectIter")
		if it == nil {
			return
		}
		feed, closeFn = it.AddRoot, it.Close
	} else {
		it, err := repo.NewBatchObjectIter(ctx)
		vp_Assert(err == nil && it != nil, "NewBatchObjectIter")
		if it == nil {
			return
		}
		feed, closeFn = it.RequestObject, it.Close
	}
	stage = st.funcs["request-objects"]
	vp_Assert(stage != nil, "the stage that writes git's stdin exists")
	if stage == nil {
		return
	}
	for i := 0; i < k; i++ {
		id := vpHexID(byte(0x60 + i))
		vp_Assert(feed(vpOIDOf(id)) == nil, "feeding an object id succeeds")
		want.WriteString(id + "\n")
	}
	closeFn()
	var out bytes.Buffer
	var serr error
	panicked := vp_Catch(func() { serr = stage(ctx, pipe.Env{}, nil, &out) })
	vp_Assert(!panicked && serr == nil, "the writer stage ends cleanly when the input is closed")
	vp_Assert(out.String() == want.String(), "git's stdin receives exactly the fed object ids, one per line, in order")
	vp_Reach("end")
}

func VPH_resolveObject() {
	if vp_Native() {
		vp_Reach("end")
		return
	}
	id := vpHexID(0x71)
	outcome := vp_Choice("outcome", 5)
	var argv, last []string
	name := "main~1:" + vp_Str("n", 2)
	vp_Stub("(*github.com/github/git-sizer/git.Repository).GitCommand", func(r *Repository, args ...string) *exec.Cmd {
		last = args
		for _, a := range args {
			if a == name {
				argv = args
			}
		}
		return &exec.Cmd{}
	})
	vp_Stub("(*os/exec.Cmd).Output", func(c *exec.Cmd) ([]byte, error) {
		asked := ""
		if len(last) > 0 {
			asked = last[len(last)-1]
		}
		if asked != name && outcome <= 1 {
			// any other expression (say `<id>^{}`, `<id>^{commit}`) names another object: what it peels to
			return []byte(vpHexID(0x72) + "\n"), nil
		}
		switch outcome {
		case 0:
			return []byte(id + "\n"), nil
		case 1:
			return []byte(id), nil
		case 2:
			return nil, &exec.ExitError{}
		case 3:
			return []byte("not-an-object-id\n"), nil
		}
		return []byte(""), nil
	})
	repo := &Repository{gitDir: ".", gitBin: "git"}
	oid, err := repo.ResolveObject(name)
	vp_Assert(len(argv) >= 2 && argv[0] == "rev-parse", "the ROOT is resolved by git rev-parse and passed verbatim")
	if outcome <= 1 {
		vp_Assert(err == nil && oid == vpOIDOf(id), "the object git names is the root (an annotated tag stays the tag: it is not peeled)")
	} else {
		vp_Assert(err != nil && oid == NullOID, "an unresolvable or malformed answer is an error")
	}
	vp_Reach("end")
}
