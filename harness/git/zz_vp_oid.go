package git

import "strings"

// H-oid (C16): NewOID (and the parsers that call it) on hex strings of any
// length with one free byte: total, accepts exactly 40 hex digits, decodes them.
func VPH_oid() {
	lens := []int{0, 1, 2, 20, 38, 39, 40, 41, 42, 43, 44, 64, 100}
	L := lens[vp_Choice("len", len(lens))]
	b := []byte(strings.Repeat("a7", L/2+1)[:L])
	freeAt := -1
	if L > 0 {
		freeAt = []int{0, L / 2, L - 1}[vp_Choice("freepos", 3)]
		b[freeAt] = vp_U8("c")
	}
	s := string(b)
	var oid OID
	var err error
	panicked := vp_Catch(func() { oid, err = NewOID(s) })
	vp_Assert(!panicked, "NewOID never panics")
	if panicked {
		return
	}
	isHex := true
	if freeAt >= 0 {
		c := b[freeAt]
		isHex = vp_Or(vp_Or(vp_And(c >= '0', c <= '9'), vp_And(c >= 'a', c <= 'f')), vp_And(c >= 'A', c <= 'F'))
	}
	vp_Assert((err == nil) == (L == 40 && isHex), "accepted iff exactly 40 hex digits")
	if err == nil && L == 40 {
		// round trip through String() (lower case)
		back := oid.String()
		vp_Assert(len(back) == 40, "40 digits back")
		for i := 0; i < 40; i++ {
			if i != freeAt {
				vp_Assert(back[i] == b[i], "digits decode and re-encode")
			}
		}
	}
	// the same through a parser that embeds it
	var cerr error
	p2 := vp_Catch(func() { _, cerr = ParseCommit(OID{}, []byte("tree "+s+"\n")) })
	vp_Assert(!p2, "ParseCommit never panics on a tree line of any length")
	if !p2 {
		hasSP := false
		if freeAt >= 0 {
			hasSP = vp_Or(b[freeAt] == ' ', b[freeAt] == '\n')
		}
		vp_Assert(vp_Or(hasSP, (cerr == nil) == (L == 40 && isHex)), "a commit parses iff its tree id is well formed")
	}
	vp_Reach("end")
}
