package symex

import (
	"go/token"
	"go/types"

	"golang.org/x/tools/go/ssa"

	"verif/engine/smt"
)

// State merging for small pure functions ("summarise pure callees").
//
// A function whose CFG is acyclic and whose instructions cannot panic, block
// or allocate observable state is executed once over all of its blocks, each
// under a guard (the condition under which the block is reached); stores are
// buffered and committed as ite(guard, new, old), results are merged with
// ite. This is semantically the same as forking at every branch, but yields
// one path instead of 2^k. Anything unexpected at run time (nil pointer,
// non-scalar merge) abandons the attempt and the call is executed normally.

type mergeInfo struct {
	ok    bool
	order []*ssa.BasicBlock // topological order
}

func (in *Interp) mergeable(fn *ssa.Function, visiting map[*ssa.Function]bool) *mergeInfo {
	in.mergeMu.Lock()
	if mi, ok := in.mergeCache[fn]; ok {
		in.mergeMu.Unlock()
		return mi
	}
	in.mergeMu.Unlock()
	mi := in.computeMergeable(fn, visiting)
	in.mergeMu.Lock()
	in.mergeCache[fn] = mi
	in.mergeMu.Unlock()
	return mi
}

func (in *Interp) computeMergeable(fn *ssa.Function, visiting map[*ssa.Function]bool) *mergeInfo {
	no := &mergeInfo{}
	if fn.Blocks == nil || len(fn.Blocks) > 24 || fn.Recover != nil || visiting[fn] {
		return no
	}
	if fn.TypeParams().Len() > 0 && len(fn.TypeArgs()) == 0 {
		return no
	}
	if len(fn.Blocks) == 1 {
		// straight-line code gains nothing from merging unless it calls mergeable code;
		// still allow it so that callers can be merged.
	}
	visiting[fn] = true
	defer delete(visiting, fn)
	// acyclic: DFS for back edges + topological order
	state := map[*ssa.BasicBlock]int{}
	var order []*ssa.BasicBlock
	cyclic := false
	var dfs func(b *ssa.BasicBlock)
	dfs = func(b *ssa.BasicBlock) {
		state[b] = 1
		for _, s := range b.Succs {
			switch state[s] {
			case 0:
				dfs(s)
			case 1:
				cyclic = true
			}
		}
		state[b] = 2
		order = append(order, b)
	}
	dfs(fn.Blocks[0])
	if cyclic {
		return no
	}
	for i, j := 0, len(order)-1; i < j; i, j = i+1, j-1 {
		order[i], order[j] = order[j], order[i]
	}
	count := 0
	for _, b := range order {
		for _, instr := range b.Instrs {
			count++
			switch instr := instr.(type) {
			case *ssa.DebugRef, *ssa.Phi, *ssa.If, *ssa.Jump, *ssa.Return, *ssa.Store,
				*ssa.FieldAddr, *ssa.Field, *ssa.ChangeType, *ssa.Extract, *ssa.MakeInterface, *ssa.ChangeInterface:
			case *ssa.Alloc:
			case *ssa.BinOp:
				switch instr.Op {
				case token.QUO, token.REM:
					if !basicInfo(instr.X.Type()).isFloat {
						if c, ok := instr.Y.(*ssa.Const); !ok || c.Value == nil || c.Uint64() == 0 {
							return no
						}
					}
				case token.SHL, token.SHR:
					if basicInfo(instr.Y.Type()).signed {
						if _, ok := instr.Y.(*ssa.Const); !ok {
							return no
						}
					}
				case token.ADD:
					if basicInfo(instr.X.Type()).isString {
						return no
					}
				}
			case *ssa.UnOp:
				if instr.Op == token.ARROW {
					return no
				}
			case *ssa.Convert:
				ks, kd := basicInfo(instr.X.Type()), basicInfo(instr.Type())
				if !((ks.isInt && kd.isInt) || (ks.isInt && kd.isFloat && kd.w == 64) || (ks.isFloat && kd.isFloat)) {
					return no
				}
			case *ssa.Call:
				callee := instr.Call.StaticCallee()
				if callee == nil || instr.Call.IsInvoke() {
					return no
				}
				if in.repoPkgs[callee.Pkg] && pureVP[callee.Name()] {
					continue
				}
				if callee.Parent() != nil {
					return no
				}
				if !in.mergeable(callee, visiting).ok {
					return no
				}
			default:
				return no
			}
		}
	}
	if count > 400 {
		return no
	}
	return &mergeInfo{ok: true, order: order}
}

var pureVP = map[string]bool{"vp_IteU64": true, "vp_IteU32": true, "vp_IteInt": true, "vp_IteBool": true, "vp_And": true, "vp_Or": true, "vp_Imp": true, "vp_IteU8": true}

type mergeBail struct{ why string }

type writeLog struct {
	vals  map[*Value]Value
	order []*Value
}

func (w *writeLog) get(addr *Value) Value {
	if v, ok := w.vals[addr]; ok {
		return v
	}
	return *addr
}

func (w *writeLog) set(addr *Value, v Value) {
	if _, ok := w.vals[addr]; !ok {
		w.order = append(w.order, addr)
	}
	w.vals[addr] = v
}

// iteValue merges two values of the same shape.
func iteValue(c *smt.Term, a, b Value) Value {
	if c.IsTrue() {
		return a
	}
	if c.IsFalse() {
		return b
	}
	switch a := a.(type) {
	case *smt.Term:
		bt, ok := b.(*smt.Term)
		if !ok || bt.Sort != a.Sort {
			panic(mergeBail{"ite of different sorts"})
		}
		return smt.Ite(c, a, bt)
	case Struct:
		bs, ok := b.(Struct)
		if !ok || len(bs) != len(a) {
			panic(mergeBail{"ite struct shape"})
		}
		r := make(Struct, len(a))
		for i := range a {
			r[i] = iteValue(c, a[i], bs[i])
		}
		return r
	case Array:
		ba, ok := b.(Array)
		if !ok || len(ba) != len(a) {
			panic(mergeBail{"ite array shape"})
		}
		r := make(Array, len(a))
		for i := range a {
			r[i] = iteValue(c, a[i], ba[i])
		}
		return r
	case Tuple:
		bt, ok := b.(Tuple)
		if !ok || len(bt) != len(a) {
			panic(mergeBail{"ite tuple shape"})
		}
		r := make(Tuple, len(a))
		for i := range a {
			r[i] = iteValue(c, a[i], bt[i])
		}
		return r
	case *Value:
		if bp, ok := b.(*Value); ok && bp == a {
			return a
		}
	case Str:
		if bs, ok := b.(Str); ok && a.isConcrete() && bs.isConcrete() && a.c == bs.c {
			return a
		}
		if bs, ok := b.(Str); ok && a.shapeKnown() && bs.shapeKnown() && a.length() == bs.length() {
			ts := make([]*smt.Term, a.length())
			for i := range ts {
				ts[i] = smt.Ite(c, a.at(i), bs.at(i))
			}
			return strFromTerms(ts)
		}
	case nil:
		if b == nil {
			return nil
		}
	case Iface:
		if bi, ok := b.(Iface); ok && a.T == nil && bi.T == nil {
			return a
		}
	}
	panic(mergeBail{"cannot merge values"})
}

func (p *Path) logLoad(w *writeLog, T types.Type, addr *Value) Value {
	switch T := T.Underlying().(type) {
	case *types.Struct:
		v, ok := w.get(addr).(Struct)
		if !ok {
			panic(mergeBail{"load of non-struct"})
		}
		a := make(Struct, len(v))
		for i := range a {
			a[i] = p.logLoad(w, T.Field(i).Type(), &v[i])
		}
		return a
	case *types.Array:
		v, ok := w.get(addr).(Array)
		if !ok {
			panic(mergeBail{"load of non-array"})
		}
		a := make(Array, len(v))
		for i := range a {
			a[i] = p.logLoad(w, T.Elem(), &v[i])
		}
		return a
	default:
		return w.get(addr)
	}
}

func (p *Path) logStore(w *writeLog, T types.Type, addr *Value, v Value, g *smt.Term) {
	switch T := T.Underlying().(type) {
	case *types.Struct:
		lhs, ok := (*addr).(Struct)
		rhs, ok2 := v.(Struct)
		if !ok || !ok2 {
			panic(mergeBail{"store struct shape"})
		}
		for i := range lhs {
			p.logStore(w, T.Field(i).Type(), &lhs[i], rhs[i], g)
		}
	case *types.Array:
		lhs, ok := (*addr).(Array)
		rhs, ok2 := v.(Array)
		if !ok || !ok2 {
			panic(mergeBail{"store array shape"})
		}
		for i := range lhs {
			p.logStore(w, T.Elem(), &lhs[i], rhs[i], g)
		}
	default:
		if g.IsTrue() {
			w.set(addr, v)
		} else {
			w.set(addr, iteValue(g, v, w.get(addr)))
		}
	}
}

// tryMergeCall executes fn by state merging. ok=false means "not attempted
// or abandoned" (no side effects happened).
func (p *Path) tryMergeCall(fn *ssa.Function, args []Value, env []Value) (res Value, ok bool) {
	if p.initPhase || p.in.NoMerge {
		return nil, false
	}
	mi := p.in.mergeable(fn, map[*ssa.Function]bool{})
	if !mi.ok {
		return nil, false
	}
	if len(fn.Blocks) == 1 {
		return nil, false // nothing to merge at this level; nested calls are merged on their own
	}
	w := &writeLog{vals: map[*Value]Value{}}
	steps0 := p.steps
	calls0 := make(map[*ssa.Function]int, len(p.calls))
	for f, c := range p.calls {
		calls0[f] = c
	}
	defer func() {
		if r := recover(); r != nil {
			if _, isBail := r.(mergeBail); isBail {
				p.steps = steps0
				p.calls = calls0 // the abandoned attempt must not count as calls (vp_Calls)
				res, ok = nil, false
				return
			}
			panic(r)
		}
	}()
	res = p.mergeExec(fn, args, env, smt.True, w, 0)
	for _, addr := range w.order {
		*addr = w.vals[addr]
	}
	p.merged++
	return res, true
}

func (p *Path) mergeExec(fn *ssa.Function, args []Value, env []Value, base *smt.Term, w *writeLog, depth int) Value {
	if depth > 8 {
		panic(mergeBail{"depth"})
	}
	mi := p.in.mergeable(fn, map[*ssa.Function]bool{})
	if !mi.ok {
		panic(mergeBail{"callee not mergeable"})
	}
	if depth > 0 {
		p.calls[fn]++ // (the outermost merged call was counted by callSSA)
	}
	if p.res.Funcs != nil {
		p.res.Funcs[fn.String()] = true
	}
	vals := map[ssa.Value]Value{}
	locals := make([]Value, len(fn.Locals))
	for i, l := range fn.Locals {
		locals[i] = zero(deref(l.Type()))
		vals[l] = &locals[i]
	}
	for i, prm := range fn.Params {
		vals[prm] = args[i]
	}
	for i, fv := range fn.FreeVars {
		vals[fv] = env[i]
	}
	get := func(v ssa.Value) Value {
		switch v := v.(type) {
		case nil:
			return nil
		case *ssa.Const:
			return constValue(v)
		case *ssa.Function, *ssa.Builtin:
			return v
		case *ssa.Global:
			if v.Pkg != nil && !p.in.inited[v.Pkg] {
				panic(mergeBail{"global of uninitialised package"})
			}
			return p.in.globals[v]
		}
		r, ok := vals[v]
		if !ok {
			panic(mergeBail{"value not computed (block skipped)"})
		}
		return r
	}
	guard := map[*ssa.BasicBlock]*smt.Term{fn.Blocks[0]: base}
	edge := map[[2]*ssa.BasicBlock]*smt.Term{}
	type ret struct {
		g *smt.Term
		v Value
	}
	var rets []ret
	for _, b := range mi.order {
		g := guard[b]
		if g == nil {
			// join of incoming edges
			g = smt.False
			for _, pr := range b.Preds {
				if e, ok := edge[[2]*ssa.BasicBlock{pr, b}]; ok {
					g = smt.Or(g, e)
				}
			}
			guard[b] = g
		}
		if v, dec := p.decided(g); dec && !v {
			continue // unreachable under the path condition
		}
		for _, instr := range b.Instrs {
			p.steps++
			switch instr := instr.(type) {
			case *ssa.DebugRef:
			case *ssa.Phi:
				var acc Value
				first := true
				for i, pr := range b.Preds {
					e, ok := edge[[2]*ssa.BasicBlock{pr, b}]
					if !ok {
						continue
					}
					if v, dec := p.decided(e); dec && !v {
						continue
					}
					v := get(instr.Edges[i])
					if first {
						acc = v
						first = false
					} else {
						acc = iteValue(e, v, acc)
					}
				}
				if first {
					panic(mergeBail{"phi without live edge"})
				}
				vals[instr] = acc
			case *ssa.If:
				c := get(instr.Cond).(*smt.Term)
				edge[[2]*ssa.BasicBlock{b, b.Succs[0]}] = smt.And(g, c)
				edge[[2]*ssa.BasicBlock{b, b.Succs[1]}] = smt.And(g, smt.Not(c))
			case *ssa.Jump:
				edge[[2]*ssa.BasicBlock{b, b.Succs[0]}] = g
			case *ssa.Return:
				var v Value
				switch len(instr.Results) {
				case 0:
				case 1:
					v = get(instr.Results[0])
				default:
					t := make(Tuple, len(instr.Results))
					for i, r := range instr.Results {
						t[i] = get(r)
					}
					v = t
				}
				rets = append(rets, ret{g, v})
			case *ssa.Store:
				addr, _ := get(instr.Addr).(*Value)
				if addr == nil {
					panic(mergeBail{"store through nil"})
				}
				if rootedAtGlobal(instr.Addr) || p.in.globalCells[addr] {
					panic(mergeBail{"store to global"})
				}
				p.logStore(w, deref(instr.Addr.Type()), addr, get(instr.Val), g)
			case *ssa.Alloc:
				if instr.Heap {
					cell := new(Value)
					*cell = zero(deref(instr.Type()))
					vals[instr] = cell
				} else {
					addr := vals[instr].(*Value)
					*addr = zero(deref(instr.Type()))
				}
			case *ssa.FieldAddr:
				x, _ := get(instr.X).(*Value)
				if x == nil {
					panic(mergeBail{"field of nil"})
				}
				st, ok := (*x).(Struct)
				if !ok {
					panic(mergeBail{"field of non-struct"})
				}
				vals[instr] = &st[instr.Field]
			case *ssa.Field:
				vals[instr] = get(instr.X).(Struct)[instr.Field]
			case *ssa.ChangeType:
				vals[instr] = get(instr.X)
			case *ssa.ChangeInterface:
				vals[instr] = get(instr.X)
			case *ssa.Extract:
				vals[instr] = get(instr.Tuple).(Tuple)[instr.Index]
			case *ssa.MakeInterface:
				vals[instr] = Iface{T: instr.X.Type(), V: get(instr.X)}
			case *ssa.BinOp:
				vals[instr] = p.pureBinop(instr, get(instr.X), get(instr.Y))
			case *ssa.UnOp:
				x := get(instr.X)
				if instr.Op == token.MUL {
					ptr, _ := x.(*Value)
					if ptr == nil {
						panic(mergeBail{"load through nil"})
					}
					vals[instr] = p.logLoad(w, deref(instr.X.Type()), ptr)
				} else {
					vals[instr] = p.unop(nil, instr, x)
				}
			case *ssa.Convert:
				vals[instr] = p.conv(instr.Type(), instr.X.Type(), get(instr.X))
			case *ssa.Call:
				callee := instr.Call.StaticCallee()
				cargs := make([]Value, len(instr.Call.Args))
				for i, a := range instr.Call.Args {
					cargs[i] = get(a)
				}
				if p.in.repoPkgs[callee.Pkg] && pureVP[callee.Name()] {
					vals[instr] = p.vpIntrinsic(nil, callee, callee.Name(), cargs)
				} else {
					vals[instr] = p.mergeExec(callee, cargs, nil, g, w, depth+1)
				}
			default:
				panic(mergeBail{"unexpected instruction"})
			}
		}
	}
	if len(rets) == 0 {
		panic(mergeBail{"no return"})
	}
	out := rets[len(rets)-1].v
	for i := len(rets) - 2; i >= 0; i-- {
		if rets[i].v == nil && out == nil {
			continue
		}
		out = iteValue(rets[i].g, rets[i].v, out)
	}
	return out
}

// pureBinop is binop restricted to operations that cannot fork or panic.
func (p *Path) pureBinop(instr *ssa.BinOp, x, y Value) Value {
	switch instr.Op {
	case token.QUO, token.REM:
		if yt, ok := y.(*smt.Term); ok && yt.Sort.K == smt.SBV {
			if !yt.IsConst() || yt.C == 0 {
				panic(mergeBail{"division"})
			}
		}
	}
	return p.binop(instr.Op, instr.X.Type(), instr.Y.Type(), x, y)
}
