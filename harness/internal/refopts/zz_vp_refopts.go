package refopts

import (
	"strings"

	"github.com/github/git-sizer/git"
	"github.com/github/git-sizer/sizes"
)

// Harnesses for reference selection and tallies (C06, C07, C15).

type vpLeaf struct{ m bool }

func (l vpLeaf) Filter(string) bool { return l.m }

// vpConfig is a scripted gitconfig (what `git config --list` reports, in order).
type vpConfig struct{ entries []git.ConfigEntry }

func (c vpConfig) GetConfig(prefix string) (*git.Config, error) {
	cfg := git.Config{Prefix: prefix}
	for _, e := range c.entries {
		if ok, rest := git.VP_KeyMatch(e.Key, prefix); ok {
			cfg.Entries = append(cfg.Entries, git.ConfigEntry{Key: rest, Value: e.Value})
		}
	}
	return &cfg, nil
}

func vpPrefixSpec(p, r string) bool {
	if len(p) == 0 {
		return true
	}
	if len(r) < len(p) || r[:len(p)] != p {
		return false
	}
	return p[len(p)-1] == '/' || len(r) == len(p) || r[len(p)] == '/'
}

var vpSymbols = []sizes.RefGroupSymbol{"a", "a.b", "a.c", "a.b.d", "e", "e.f"}

type vpGroup struct {
	sym     sizes.RefGroupSymbol
	present bool // explicitly configured
	ruled   bool
	m       bool
}

func vpParent(s sizes.RefGroupSymbol) sizes.RefGroupSymbol {
	i := strings.LastIndexByte(string(s), '.')
	if i < 0 {
		return ""
	}
	return s[:i]
}

// VPH_groupForest: refgroup forests built through the real getGroup /
// fillInTree; every ruled group's own rule is a free boolean.
func VPH_groupForest() {
	nsym := vp_Param("nsym")
	rgb, err := NewRefGroupBuilder(nil)
	vp_Assert(err == nil && rgb != nil, "builder without config")
	model := map[sizes.RefGroupSymbol]*vpGroup{}
	var order []sizes.RefGroupSymbol
	exists := map[sizes.RefGroupSymbol]bool{"": true}
	for i := 0; i < nsym; i++ {
		sym := vpSymbols[i]
		if vp_Choice("present", 2) == 0 {
			continue
		}
		g := &vpGroup{sym: sym, present: true}
		rg := rgb.getGroup(sym)
		if vp_Choice("ruled", 2) == 1 {
			g.ruled = true
			g.m = vp_Bool("m")
			rg.filter = vpLeaf{g.m}
		}
		model[sym] = g
		// implicit parents
		for s := sym; s != ""; s = vpParent(s) {
			if !exists[s] {
				exists[s] = true
				order = append(order, s)
			}
		}
	}
	for s := range exists {
		if s != "" && model[s] == nil {
			model[s] = &vpGroup{sym: s}
		}
	}
	children := func(p sizes.RefGroupSymbol) []sizes.RefGroupSymbol {
		var cs []sizes.RefGroupSymbol
		for _, s := range order {
			if vpParent(s) == p {
				cs = append(cs, s)
			}
		}
		return cs
	}
	// top level: free walk bit through an explicit filter
	walkBit := vp_Bool("top")
	rgb.topLevelGroup.filter = vpLeaf{walkBit}

	// a rule-less group without subgroups is a configuration error
	undefined := false
	for _, s := range order {
		if !model[s].ruled && len(children(s)) == 0 {
			undefined = true
		}
	}
	grouper, err := rgb.Finish(true)
	vp_Assert((err != nil) == undefined, "Finish fails iff some group has neither rules nor subgroups")
	if err != nil {
		vp_Reach("undefined-group")
		return
	}
	const ref = "refs/x/y" // matched by no built-in group
	walk, got := grouper.Categorize(ref)
	in := func(sym sizes.RefGroupSymbol) bool {
		for _, s := range got {
			if s == sym {
				return true
			}
		}
		return false
	}
	count := func(sym sizes.RefGroupSymbol) int {
		n := 0
		for _, s := range got {
			if s == sym {
				n++
			}
		}
		return n
	}
	// specification (DESIGN A.6)
	var T func(s sizes.RefGroupSymbol) []sizes.RefGroupSymbol
	T = func(s sizes.RefGroupSymbol) []sizes.RefGroupSymbol {
		g := model[s]
		var sub []sizes.RefGroupSymbol
		for _, c := range children(s) {
			sub = append(sub, T(c)...)
		}
		if g.ruled {
			if !g.m {
				return nil
			}
			res := append([]sizes.RefGroupSymbol{s}, sub...)
			if len(children(s)) > 0 && len(sub) == 0 {
				res = append(res, s+".other")
			}
			return res
		}
		if len(sub) == 0 {
			return nil
		}
		return append([]sizes.RefGroupSymbol{s}, sub...)
	}
	vp_Assert(walk == walkBit, "traversed iff the top-level selection accepts")
	if !walkBit {
		vp_Assert(len(got) == 1 && got[0] == "ignored", "an untraversed reference is tallied only under Ignored")
		vp_Reach("ignored")
	} else {
		want := []sizes.RefGroupSymbol{""}
		var sub []sizes.RefGroupSymbol
		for _, c := range children("") {
			sub = append(sub, T(c)...)
		}
		want = append(want, sub...)
		if len(sub) == 0 {
			want = append(want, "other") // the built-in groups are subgroups of the top level
		}
		vp_Assert(len(got) == len(want), "exactly the matched groups (each once) plus Other buckets")
		for _, w := range want {
			vp_Assert(count(w) == 1, "group tallied exactly once: "+string(w))
		}
		vp_Assert(!in("ignored"), "a traversed reference is not Ignored")
		vp_Reach("walked")
	}

	// @REFGROUP (C06): member iff every ruled proper ancestor accepts and the group matches
	var M func(s sizes.RefGroupSymbol) bool
	M = func(s sizes.RefGroupSymbol) bool {
		g := model[s]
		if g.ruled {
			return g.m
		}
		for _, c := range children(s) {
			if M(c) {
				return true
			}
		}
		return false
	}
	for _, s := range order {
		want := M(s)
		for a := vpParent(s); a != ""; a = vpParent(a) {
			if model[a].ruled && !model[a].m {
				want = false
			}
		}
		f := refGroupFilter{rgb.groups[s]}
		vp_Assert(f.Filter(ref) == want, "@REFGROUP matches exactly the members of the group: "+string(s))
	}
	// every group is listed once for output, parents before children
	seen := map[sizes.RefGroupSymbol]int{}
	for _, g := range grouper.Groups() {
		seen[g.Symbol]++
	}
	for _, s := range order {
		vp_Assert(seen[s] == 1, "group listed once: "+string(s))
	}
}

var vpPrefixMenu = []string{"refs/a", "refs/a/", "", "refs/ab", "refs", "refs/tags/v"}

// VPH_augment: refgroup definitions read from a scripted gitconfig; each
// group's rule must be the include/exclude fold of its own entries in git's
// order with the exact values (on top of the built-in rule for built-in
// groups), whatever other groups are listed before, between or after.
func VPH_augment() {
	k := vp_Choice("entries", vp_Param("kmax")+1)
	var cfg vpConfig
	type rule struct {
		inc bool
		p   string
	}
	groups := []string{"foo", "foobar", "Foo", "foo.sub", "tags", ""} // "" = an entry directly under [refgroup]
	nkinds, nvalues := 4, len(vpPrefixMenu)
	if vp_Param("smallmenu") == 1 {
		// longer listings over a smaller menu: interleavings of one group's entries with other groups'
		groups = []string{"foo", "foobar", "foo.sub"}
		nkinds, nvalues = 3, 3
	}
	rules := map[string][]rule{}
	names := map[string]string{}
	nameSet := map[string]bool{}
	seen := map[string]bool{}
	for i := 0; i < k; i++ {
		grp := groups[vp_Choice("group", len(groups))]
		kind := vp_Choice("kind", nkinds)
		val := vpPrefixMenu[vp_Choice("value", nvalues)]
		key := []string{"include", "exclude", "name", "bogus"}[kind]
		if grp == "" {
			// `[refgroup] include = ...` names no group: it must not reach any group
			cfg.entries = append(cfg.entries, git.ConfigEntry{Key: "refgroup." + key, Value: val})
			continue
		}
		cfg.entries = append(cfg.entries, git.ConfigEntry{Key: "refgroup." + grp + "." + key, Value: val})
		seen[grp] = true
		switch kind {
		case 0:
			rules[grp] = append(rules[grp], rule{true, val})
		case 1:
			rules[grp] = append(rules[grp], rule{false, val})
		case 2:
			names[grp] = val
			nameSet[grp] = true
		}
	}
	rgb, err := NewRefGroupBuilder(cfg)
	vp_Assert(err == nil, "prefix-only definitions are accepted")
	if err != nil {
		return
	}
	r := []string{"refs/a", "refs/tags/"}[vp_Choice("probe", 2)] + vp_Str("r", 2)
	for _, grp := range []string{"foo", "tags", "foo.sub"} {
		rg := rgb.groups[sizes.RefGroupSymbol(grp)]
		builtin := grp == "tags"
		implied := grp == "foo" && seen["foo.sub"] // implicit parent
		vp_Assert((rg != nil) == (seen[grp] || builtin || implied), "group exists iff configured, built in, or an implicit parent: "+grp)
		if rg == nil {
			continue
		}
		if builtin && !nameSet[grp] {
			vp_Assert(rg.Name == "Tags", "built-in name kept")
		} else {
			vp_Assert(rg.Name == names[grp], "display name = last name entry, exact value: "+grp)
		}
		rs := rules[grp]
		vp_Assert((rg.filter == nil) == (len(rs) == 0 && !builtin), "no rules <=> no filter: "+grp)
		if rg.filter == nil {
			continue
		}
		got := rg.filter.Filter(r)
		var want bool
		if builtin {
			want = vpPrefixSpec("refs/tags/", r)
		} else {
			want = !rs[0].inc
		}
		for _, ru := range rs {
			if vpPrefixSpec(ru.p, r) {
				want = ru.inc
			}
		}
		vp_Assert(got == want, "group rule = fold of its own entries in order, exact values: "+grp)
	}
	vp_Reach("end")
}

// VPH_interpretFlexibly: --include/--exclude argument kinds.
func VPH_interpretFlexibly() {
	rgb, _ := NewRefGroupBuilder(nil)
	rgb.getGroup("x").filter = vpLeaf{true}
	v := &filterValue{rgb, git.Include, "", false}
	mid := []string{"", "a", "refs/.*", "x", "@x", "a|b"}[vp_Choice("mid", 6)]
	s := mid
	if vp_Choice("lead", 2) == 1 {
		s = vp_Str("b0", 1) + s
	}
	if vp_Choice("trail", 2) == 1 {
		s = s + vp_Str("b1", 1)
	}
	var f git.ReferenceFilter
	var err error
	panicked := vp_Catch(func() { f, err = v.interpretFlexibly(s) })
	vp_Assert(!panicked, "interpretFlexibly never panics")
	if panicked {
		return
	}
	r := "refs/" + vp_Str("r", 2)
	vp_AssumeASCII(r)
	vp_Assume(r[5] != '\n')
	vp_Assume(r[6] != '\n')
	switch {
	case len(s) >= 2 && s[0] == '/' && s[len(s)-1] == '/':
		inner := s[1 : len(s)-1]
		if !vp_RegexpCompiles(inner) {
			vp_Assert(err != nil, "invalid /REGEXP/ is rejected")
		} else {
			vp_Assert(err == nil, "valid /REGEXP/ accepted")
			if err == nil {
				vp_Assert(f.Filter(r) == vp_RegexpFullMatch(inner, r), "/REGEXP/ = whole-name match")
			}
		}
		vp_Reach("regexp")
	case len(s) >= 1 && s[0] == '@':
		name := s[1:]
		if name == "x" {
			vp_Assert(err == nil, "defined @REFGROUP accepted")
			g, ok := f.(refGroupFilter)
			vp_Assert(ok && g.refGroup == rgb.groups["x"], "@x is the group's filter")
		} else if _, def := rgb.groups[sizes.RefGroupSymbol(name)]; !def || name == "" {
			vp_Assert(err != nil, "empty or undefined @REFGROUP is an error")
		}
		vp_Reach("group")
	default:
		vp_Assert(err == nil, "anything else is a PREFIX")
		if err == nil {
			vp_Assert(f.Filter(r) == vpPrefixSpec(s, r), "PREFIX semantics")
		}
		vp_Reach("prefix")
	}
}

// VPH_finish: no reference option at all => all references (no ROOT) or none (ROOTs given).
func VPH_finish() {
	rgb, _ := NewRefGroupBuilder(nil)
	defaultAll := vp_Choice("defaultAll", 2) == 1
	g, err := rgb.Finish(defaultAll)
	vp_Assert(err == nil, "Finish succeeds with the built-in groups")
	if err != nil {
		return
	}
	r := "refs/" + vp_Str("r", 3)
	vp_AssumeASCII(r)
	walk, _ := g.Categorize(r)
	vp_Assert(walk == defaultAll, "no selection option: all references iff no ROOT was given")
	walk, syms := g.Categorize(r)
	if !walk {
		// C07: however the selection came about (here: ROOT arguments and no
		// reference option), an untraversed reference is tallied under Ignored,
		// and Ignored is one of the groups that get a row
		vp_Assert(len(syms) == 1 && syms[0] == "ignored", "an untraversed reference is tallied only under Ignored")
		listed := false
		for _, rg := range g.Groups() {
			if rg.Symbol == "ignored" {
				listed = true
			}
		}
		vp_Assert(listed, "Ignored is among the groups that are reported")
	} else {
		for _, sym := range syms {
			vp_Assert(sym != "ignored", "a traversed reference is not Ignored")
		}
	}
	vp_Reach("end")
}
