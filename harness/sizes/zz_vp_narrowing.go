package sizes

import (
	"github.com/github/git-sizer/counts"
	"github.com/github/git-sizer/git"
)

// H-narrowing (C05): a quantity that passes through a narrower counter on its
// way into a 64-bit total must still make the total min(true value, 2^64-1).
func VPH_narrowing() {
	k := 1 + vp_Choice("ndigits", vp_Param("maxdigits"))
	b := vp_Bytes("size", k)
	var size uint64
	for i, c := range b {
		vp_Assume(c >= '0')
		vp_Assume(c <= '9')
		if i == 0 && k > 1 {
			vp_Assume(c != '0')
		}
		size = size*10 + uint64(c-'0')
	}
	oid := vpMkOID('b', 3)
	line := oid.String() + " blob " + string(b) + "\n"
	h, err := git.ParseBatchHeader("", line)
	vp_Assert(err == nil, "header parses")
	if err != nil {
		return
	}
	g := NewGraph(NameStyleNone)
	total0 := vp_U64("total")
	g.historySize.UniqueBlobSize = counts.Count64(total0)
	g.RegisterBlob(h.OID, h.ObjectSize)
	vp_Assert(uint64(g.historySize.MaxBlobSize) == vpMin(size, vpCap32), "max blob size = min(true size, 2^32-1)")
	vp_Assert(uint64(g.historySize.UniqueBlobCount) == 1, "counted")
	// KF-b: a size beyond 2^32-1 enters the 64-bit total clamped to 2^32-1; only that
	// outcome is the known finding, any other wrong total is not
	vp_KnownRegion("KF-b", vp_And(size > vpCap32, uint64(g.historySize.UniqueBlobSize) == vpSat64(total0, vpCap32)))
	vp_Assert(uint64(g.historySize.UniqueBlobSize) == vpSat64(total0, size), "total blob size = min(total + true size, 2^64-1)")
	vp_KnownRegionEnd("KF-b")
	vp_Reach("end")
}
