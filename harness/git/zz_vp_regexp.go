package git

// H-regex-anchor (C06): RegexpFilter(P).Filter(s) <=> P matches ALL of s, for
// every pattern P of a generated family and every ASCII subject of the bound.

const vpRxAlphabet = "ab/.*|()^$?"

func vpPattern(idx, length int) string {
	b := make([]byte, length)
	for i := length - 1; i >= 0; i-- {
		b[i] = vpRxAlphabet[idx%len(vpRxAlphabet)]
		idx /= len(vpRxAlphabet)
	}
	return string(b)
}

func vpPow(b, e int) int {
	r := 1
	for i := 0; i < e; i++ {
		r *= b
	}
	return r
}

func VPH_regexpAnchor() {
	plen := 1 + vp_Choice("plen", vp_Param("pmax"))
	idx := vp_Choice("pattern", vpPow(len(vpRxAlphabet), plen))
	pat := vpPattern(idx, plen)
	f, err := RegexpFilter(pat)
	if !vp_RegexpCompiles(pat) {
		// patterns that are not regular expressions by themselves are outside the family;
		// (the real code may or may not reject "^"+P+"$")
		vp_Reach("not-a-regexp")
		return
	}
	vp_KnownRegion("KF-d", true)
	vp_Assert(err == nil, "a valid regexp is accepted")
	if err != nil {
		return
	}
	slen := vp_Choice("slen", vp_Param("smax")+1)
	s := vp_Str("s", slen)
	vp_AssumeASCII(s)
	for i := 0; i < len(s); i++ {
		vp_Assume(s[i] != '\n') // reference names contain no LF
	}
	vp_Assert(f.Filter(s) == vp_RegexpFullMatch(pat, s), "/REGEXP/ selects exactly the names it matches entirely")
	vp_KnownRegionEnd("KF-d")
	vp_Reach("end")
}

// VPH_regexpConcrete: the same statement on concrete subjects (all strings over
// {a, b, /} up to the bound), for which any regexp API the implementation may
// use is executed natively. Complements the symbolic-subject harness.
func VPH_regexpConcrete() {
	plen := 1 + vp_Choice("plen", vp_Param("pmax"))
	idx := vp_Choice("pattern", vpPow(len(vpRxAlphabet), plen))
	pat := vpPattern(idx, plen)
	if !vp_RegexpCompiles(pat) {
		vp_Reach("not-a-regexp")
		return
	}
	f, err := RegexpFilter(pat)
	vp_Assert(err == nil, "a valid regexp is accepted")
	if err != nil {
		return
	}
	smax := vp_Param("smax")
	subjects := []string{""}
	for l, lo := 0, 0; l < smax; l++ {
		hi := len(subjects)
		for i := lo; i < hi; i++ {
			for _, c := range "ab/" {
				subjects = append(subjects, subjects[i]+string(c))
			}
		}
		lo = hi
	}
	for _, s := range subjects {
		vp_Assert(f.Filter(s) == vp_RegexpFullMatch(pat, s), "/REGEXP/ selects exactly the names it matches entirely")
	}
	vp_Reach("end")
}
