package git

import (
	"context"
	"os"
	"os/exec"

	"github.com/github/go-pipe/pipe"
)

// H-allcommands (C13): EVERY git command that any entry point of package git
// creates - config queries, object resolution, path queries and the three
// pipelines - reads the real objects of the right repository: replacement
// objects disabled, grafts disabled, GIT_DIR = the repository, whatever the
// inherited environment says.
func VPH_allCommands() {
	if vp_Native() {
		vp_Reach("end")
		return
	}
	env := []string{"PATH=/usr/bin", "GIT_DIR=/elsewhere", "GIT_GRAFT_FILE=/tmp/grafts"}
	vp_Stub("os.Environ", func() []string { return env })
	var cmds []*exec.Cmd
	vp_Stub("os/exec.Command", func(name string, arg ...string) *exec.Cmd {
		c := &exec.Cmd{Path: name, Args: append([]string{name}, arg...)}
		cmds = append(cmds, c)
		return c
	})
	vp_Stub("(*os/exec.Cmd).Output", func(c *exec.Cmd) ([]byte, error) {
		return []byte("a7a7a7a7a7a7a7a7a7a7a7a7a7a7a7a7a7a7a7a7\n"), nil
	})
	vp_Stub("github.com/github/go-pipe/pipe.CommandStage", func(name string, cmd *exec.Cmd) pipe.Stage { return nil })
	vp_Stub("github.com/github/go-pipe/pipe.Function", func(name string, f pipe.StageFunc) pipe.Stage { return nil })
	vp_Stub("github.com/github/go-pipe/pipe.LinewiseFunction", func(name string, f pipe.LinewiseStageFunc) pipe.Stage { return nil })
	vp_Stub("(*github.com/github/go-pipe/pipe.Pipeline).Add", func(p *pipe.Pipeline, stages ...pipe.Stage) {})
	vp_Stub("(*github.com/github/go-pipe/pipe.Pipeline).Start", func(p *pipe.Pipeline, ctx context.Context) error { return nil })
	vp_Stub("(*github.com/github/go-pipe/pipe.Pipeline).Wait", func(p *pipe.Pipeline) error { return nil })
	vp_ChanSlack(4)

	repo := &Repository{gitDir: "/the/repo/.git", gitBin: "/usr/bin/git"}
	if vp_Choice("opened-from-path", 2) == 1 {
		// the repository as the CLI opens it: from a start directory, GIT_DIR being git's answer
		vp_Stub("github.com/github/git-sizer/git.findGitBin", func() (string, error) { return "/usr/bin/git", nil })
		vp_Stub("(*os/exec.Cmd).Output", func(c *exec.Cmd) ([]byte, error) {
			for _, a := range c.Args {
				if a == "--git-dir" {
					return []byte("/the/repo/.git\n"), nil
				}
				if a == "--git-path" {
					return []byte("/the/repo/.git/shallow\n"), nil
				}
			}
			return []byte("a7a7a7a7a7a7a7a7a7a7a7a7a7a7a7a7a7a7a7a7\n"), nil
		})
		vp_Stub("os.Lstat", func(name string) (os.FileInfo, error) { return nil, os.ErrNotExist })
		r, err := NewRepositoryFromPath("/work/tree/sub")
		vp_Assert(err == nil && r != nil, "the repository opens")
		if r == nil {
			return
		}
		repo = r
		cmds = nil // (the commands that locate the repository are VPH_repoFromPath's and VPH_isFull's subject)
	}
	ctx := context.Background()
	entry := vp_Choice("entry", 9)
	what := ""
	switch entry {
	case 0:
		what = "GetConfig"
		repo.GetConfig("refgroup")
	case 1:
		what = "ConfigStringDefault"
		repo.ConfigStringDefault("sizer.names", "full")
	case 2:
		what = "ConfigBoolDefault"
		repo.ConfigBoolDefault("sizer.progress", false)
	case 3:
		what = "ConfigIntDefault"
		repo.ConfigIntDefault("sizer.jsonVersion", 1)
	case 4:
		what = "ResolveObject"
		repo.ResolveObject("main~1")
	case 5:
		what = "GitPath"
		repo.GitPath("shallow")
	case 6:
		what = "NewObjectIter"
		repo.NewObjectIter(ctx)
	case 7:
		what = "NewBatchObjectIter"
		repo.NewBatchObjectIter(ctx)
	case 8:
		what = "NewReferenceIter"
		repo.NewReferenceIter(ctx)
	}
	vp_Assert(len(cmds) >= 1, what+": a git command is created")
	effective := func(list []string, key string) (string, bool) {
		val, ok := "", false
		for _, e := range list {
			if len(e) > len(key) && e[:len(key)] == key && e[len(key)] == '=' {
				val, ok = e[len(key)+1:], true
			}
		}
		return val, ok
	}
	for _, c := range cmds {
		vp_Assert(c.Path == "/usr/bin/git", what+": the chosen git binary")
		// global options precede the subcommand (the first argument that does not start with '-', skipping -c's operand)
		noReplace := false
		for i := 1; i < len(c.Args); i++ {
			a := c.Args[i]
			if a == "-c" || a == "-C" {
				i++
				continue
			}
			if len(a) == 0 || a[0] != '-' {
				break
			}
			if a == "--no-replace-objects" {
				noReplace = true
			}
		}
		// commands that read objects or references must see the real ones; `git config` and
		// `rev-parse --git-path` do not depend on replacement objects or grafts
		sub, readsObjects := "", false
		for i := 1; i < len(c.Args); i++ {
			a := c.Args[i]
			if a == "-c" || a == "-C" {
				i++
				continue
			}
			if len(a) > 0 && a[0] != '-' {
				sub = a
				for _, b := range c.Args[i+1:] {
					if b == "--verify" {
						readsObjects = true
					}
				}
				break
			}
		}
		if sub == "rev-list" || sub == "cat-file" || sub == "for-each-ref" || sub == "log" || sub == "show" {
			readsObjects = true
		}
		if readsObjects {
			vp_Assert(noReplace, what+": replacement objects are disabled (--no-replace-objects)")
		}
		envList := c.Env
		if envList == nil {
			envList = env // a nil Env means "inherit"
		}
		v, ok := effective(envList, "GIT_DIR")
		vp_Assert(ok && v == "/the/repo/.git", what+": GIT_DIR is the repository")
		if readsObjects {
			v, ok = effective(envList, "GIT_GRAFT_FILE")
			vp_Assert(ok && v == os.DevNull, what+": grafts are disabled")
		}
	}
	vp_Reach("end")
}
