package smt

import (
	"bufio"
	"fmt"
	"io"
	"math"
	"math/big"
	"os/exec"
	"strconv"
	"strings"
	"time"
)

// Seed (VERIF_SEED) is passed to the solvers' random seeds; verdicts do not depend on it, models may.
var Seed int

type Result int

const (
	Unsat Result = iota
	Sat
	Unknown
)

func (r Result) String() string { return [...]string{"unsat", "sat", "unknown"}[r] }

// Session is one live solver process used incrementally.
type Session struct {
	Kind        string // "z3", "z3-new", "cvc5"
	cmd         *exec.Cmd
	in          io.WriteCloser
	out         *bufio.Reader
	P           *Printer
	depth       int
	Queries     int
	Time        time.Duration
	MaxMs       float64
	Errors      []string
	Log         io.Writer // optional transcript
	Timeout     int       // ms per check-sat
	marker      int
	dead        bool
	lastHadPush bool
	PlainCheck  bool // use plain (check-sat) instead of the bit-blasting tactics
}

func NewSession(kind string, timeoutMs int) (*Session, error) {
	var cmd *exec.Cmd
	switch kind {
	case "z3":
		cmd = exec.Command("z3", "-in", "-smt2")
	case "z3-new":
		cmd = exec.Command("z3-new", "-in", "-smt2")
	case "cvc5":
		cmd = exec.Command("cvc5", "--incremental", "--lang=smt2", "--produce-models", fmt.Sprintf("--tlimit-per=%d", timeoutMs))
	default:
		return nil, fmt.Errorf("unknown solver %q", kind)
	}
	in, err := cmd.StdinPipe()
	if err != nil {
		return nil, err
	}
	out, err := cmd.StdoutPipe()
	if err != nil {
		return nil, err
	}
	cmd.Stderr = cmd.Stdout
	if err := cmd.Start(); err != nil {
		return nil, err
	}
	s := &Session{Kind: kind, cmd: cmd, in: in, out: bufio.NewReaderSize(out, 1<<16), P: NewPrinter(), Timeout: timeoutMs}
	if kind == "cvc5" {
		s.send("(set-logic ALL)\n")
	} else {
		s.send(fmt.Sprintf("(set-option :timeout %d)\n", timeoutMs))
	}
	s.send("(set-option :produce-models true)\n")
	if Seed != 0 && kind != "cvc5" {
		s.send(fmt.Sprintf("(set-option :sat.random_seed %d)\n(set-option :smt.random_seed %d)\n", Seed, Seed))
	}
	return s, nil
}

func (s *Session) Close() {
	if s.dead {
		return
	}
	s.dead = true
	s.in.Close()
	done := make(chan struct{})
	go func() { s.cmd.Wait(); close(done) }()
	select {
	case <-done:
	case <-time.After(2 * time.Second):
		s.cmd.Process.Kill()
	}
}

func (s *Session) send(txt string) {
	if s.Log != nil {
		io.WriteString(s.Log, txt)
	}
	if _, err := io.WriteString(s.in, txt); err != nil {
		s.Errors = append(s.Errors, "write: "+err.Error())
	}
}

// sync sends an echo marker and collects all output lines up to it.
func (s *Session) sync() []string {
	s.marker++
	m := fmt.Sprintf("@@%d", s.marker)
	s.send(fmt.Sprintf("(echo \"%s\")\n", m))
	var lines []string
	for {
		line, err := s.out.ReadString('\n')
		if err != nil {
			s.Errors = append(s.Errors, "read: "+err.Error())
			return lines
		}
		line = strings.TrimRight(line, "\r\n")
		if s.Log != nil {
			fmt.Fprintf(s.Log, "; < %s\n", line)
		}
		t := strings.Trim(line, "\"")
		if t == m {
			return lines
		}
		if strings.Contains(line, "(error") {
			s.Errors = append(s.Errors, line)
		}
		lines = append(lines, line)
	}
}

// flushDefs sends pending declarations/definitions accumulated by the printer.
func (s *Session) flushDefs() {
	if s.P.Out.Len() > 0 {
		s.send(s.P.Out.String())
		s.P.Out.Reset()
	}
}

// BeginPath opens a scope for one execution path.
func (s *Session) BeginPath() {
	s.send("(push 1)\n")
	s.depth++
}

// EndPath closes the path scope and forgets all definitions.
func (s *Session) EndPath() {
	for s.depth > 0 {
		s.send("(pop 1)\n")
		s.depth--
	}
	s.P.Reset()
}

// Assert adds t permanently (within the current path scope).
func (s *Session) Assert(t *Term) {
	r := s.P.Ref(t)
	s.flushDefs()
	s.send("(assert " + r + ")\n")
}

// Check asks whether the conjunction of ts is satisfiable together with
// whatever was asserted permanently (the engine asserts nothing
// permanently: every query carries its own, sliced, constraint set). The
// scope stays open until PopCheck so that Model/Eval can be used.
func (s *Session) Check(ts ...*Term) Result {
	refs := make([]string, 0, len(ts))
	for _, t := range ts {
		if t == nil {
			continue
		}
		refs = append(refs, s.P.Ref(t))
	}
	s.flushDefs()
	t0 := time.Now()
	cs := "(check-sat)\n"
	if s.Kind != "cvc5" && !s.P.HasInt && !s.PlainCheck {
		if s.P.HasFP {
			cs = "(check-sat-using qffp)\n"
		} else {
			cs = "(check-sat-using qfbv)\n"
		}
	}
	var sb strings.Builder
	sb.WriteString("(push 1)\n")
	for _, r := range refs {
		sb.WriteString("(assert ")
		sb.WriteString(r)
		sb.WriteString(")\n")
	}
	sb.WriteString(cs)
	s.send(sb.String())
	lines := s.sync()
	d := time.Since(t0)
	s.Queries++
	s.Time += d
	if ms := float64(d.Microseconds()) / 1000; ms > s.MaxMs {
		s.MaxMs = ms
	}
	res := Unknown
	hadErr := false
	for _, l := range lines {
		switch strings.TrimSpace(l) {
		case "sat":
			res = Sat
		case "unsat":
			res = Unsat
		case "unknown":
			res = Unknown
		}
		if strings.Contains(l, "(error") {
			hadErr = true
		}
	}
	if hadErr {
		res = Unknown
	}
	s.lastHadPush = true
	s.depth++
	return res
}

// lastHadPush tracks whether Check pushed a scope that PopCheck must pop.
// (kept as a field to allow GetModel between Check and PopCheck)
func (s *Session) PopCheck() {
	if s.lastHadPush {
		s.send("(pop 1)\n")
		s.lastHadPush = false
		s.depth--
	}
}

// Model returns values of all declared variables after a Sat answer
// (call before PopCheck).
func (s *Session) Model() map[string]ModelValue {
	res := map[string]ModelValue{}
	if len(s.P.Vars) == 0 {
		return res
	}
	var sb strings.Builder
	sb.WriteString("(get-value (")
	for _, v := range s.P.Vars {
		sb.WriteString(quoteName(v))
		sb.WriteString(" ")
	}
	sb.WriteString("))\n")
	s.send(sb.String())
	lines := s.sync()
	txt := strings.Join(lines, " ")
	toks := tokenize(txt)
	// parse ((name value) (name value) ...)
	pos := 0
	var parse func() interface{}
	parse = func() interface{} {
		if pos >= len(toks) {
			return nil
		}
		t := toks[pos]
		pos++
		if t == "(" {
			var l []interface{}
			for pos < len(toks) && toks[pos] != ")" {
				l = append(l, parse())
			}
			pos++
			return l
		}
		return t
	}
	top, _ := parse().([]interface{})
	for _, e := range top {
		pair, ok := e.([]interface{})
		if !ok || len(pair) != 2 {
			continue
		}
		name, _ := pair[0].(string)
		name = strings.Trim(name, "|")
		sort, _ := s.P.VarSort(name)
		res[name] = parseValue(pair[1], sort)
	}
	return res
}

type ModelValue struct {
	Sort Sort
	U    uint64
	F    float64
	B    *big.Int
	Raw  string
}

func (m ModelValue) String() string {
	switch m.Sort.K {
	case SBool:
		return strconv.FormatBool(m.U == 1)
	case SBV:
		return strconv.FormatUint(m.U, 10)
	case SFP:
		return strconv.FormatFloat(m.F, 'g', -1, 64)
	case SInt:
		if m.B != nil {
			return m.B.String()
		}
	}
	return m.Raw
}

func tokenize(s string) []string {
	var toks []string
	i := 0
	for i < len(s) {
		c := s[i]
		switch {
		case c == ' ' || c == '\t' || c == '\n':
			i++
		case c == '(' || c == ')':
			toks = append(toks, string(c))
			i++
		case c == '|':
			j := i + 1
			for j < len(s) && s[j] != '|' {
				j++
			}
			toks = append(toks, s[i:j+1])
			i = j + 1
		default:
			j := i
			for j < len(s) && !strings.ContainsRune(" \t\n()", rune(s[j])) {
				j++
			}
			toks = append(toks, s[i:j])
			i = j
		}
	}
	return toks
}

func flat(v interface{}) string {
	switch v := v.(type) {
	case string:
		return v
	case []interface{}:
		parts := make([]string, len(v))
		for i, e := range v {
			parts[i] = flat(e)
		}
		return "(" + strings.Join(parts, " ") + ")"
	}
	return ""
}

func parseBits(tok string) (uint64, int, bool) {
	if strings.HasPrefix(tok, "#x") {
		v, err := strconv.ParseUint(tok[2:], 16, 64)
		return v, 4 * (len(tok) - 2), err == nil
	}
	if strings.HasPrefix(tok, "#b") {
		v, err := strconv.ParseUint(tok[2:], 2, 64)
		return v, len(tok) - 2, err == nil
	}
	return 0, 0, false
}

func parseValue(v interface{}, sort Sort) ModelValue {
	mv := ModelValue{Sort: sort, Raw: flat(v)}
	switch sort.K {
	case SBool:
		if mv.Raw == "true" {
			mv.U = 1
		}
	case SBV:
		if s, ok := v.(string); ok {
			mv.U, _, _ = parseBits(s)
		} else if l, ok := v.([]interface{}); ok && len(l) == 3 && flat(l[0]) == "_" {
			// (_ bv123 32)
			if s, ok := l[1].(string); ok && strings.HasPrefix(s, "bv") {
				mv.U, _ = strconv.ParseUint(s[2:], 10, 64)
			}
		}
	case SFP:
		if l, ok := v.([]interface{}); ok {
			if len(l) == 4 && flat(l[0]) == "fp" {
				sgn, _, _ := parseBits(flat(l[1]))
				ex, _, _ := parseBits(flat(l[2]))
				man, _, _ := parseBits(flat(l[3]))
				mv.F = math.Float64frombits(sgn<<63 | ex<<52 | man)
			} else if len(l) >= 2 && flat(l[0]) == "_" {
				switch flat(l[1]) {
				case "+zero":
					mv.F = 0
				case "-zero":
					mv.F = math.Copysign(0, -1)
				case "+oo":
					mv.F = math.Inf(1)
				case "-oo":
					mv.F = math.Inf(-1)
				case "NaN":
					mv.F = math.NaN()
				}
			}
		}
	case SInt:
		if s, ok := v.(string); ok {
			mv.B, _ = new(big.Int).SetString(s, 10)
		} else if l, ok := v.([]interface{}); ok && len(l) == 2 && flat(l[0]) == "-" {
			b, _ := new(big.Int).SetString(flat(l[1]), 10)
			if b != nil {
				mv.B = b.Neg(b)
			}
		}
	}
	return mv
}

// Eval returns the model value of an arbitrary term after a Sat answer.
func (s *Session) Eval(t *Term) ModelValue {
	r := s.P.Ref(t)
	if s.P.Out.Len() > 0 {
		// t must have been part of the checked formulas; defining new terms
		// inside the check scope would be lost on pop.
		s.Errors = append(s.Errors, "Eval: term not yet defined")
	}
	s.send("(get-value (" + r + "))\n")
	lines := s.sync()
	toks := tokenize(strings.Join(lines, " "))
	// ((ref value))
	pos := 0
	var parse func() interface{}
	parse = func() interface{} {
		if pos >= len(toks) {
			return nil
		}
		t := toks[pos]
		pos++
		if t == "(" {
			var l []interface{}
			for pos < len(toks) && toks[pos] != ")" {
				l = append(l, parse())
			}
			pos++
			return l
		}
		return t
	}
	top, _ := parse().([]interface{})
	if len(top) == 1 {
		if pair, ok := top[0].([]interface{}); ok && len(pair) == 2 {
			return parseValue(pair[1], t.Sort)
		}
	}
	s.Errors = append(s.Errors, "Eval: cannot parse "+strings.Join(lines, " "))
	return ModelValue{Sort: t.Sort}
}

// Name returns the canonical solver-side name of t (defining it if needed).
func (s *Session) Name(t *Term) string { return s.P.Ref(t) }
