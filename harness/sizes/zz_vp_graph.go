package sizes

import (
	"github.com/github/git-sizer/counts"
	"github.com/github/git-sizer/git"
)

// H-graph-trees (C01, C04, C05 linear work, C09): a bounded tree DAG is
// serialised to real tree objects and delivered to the real Graph in every
// order; the aggregate must equal an order-free recursive oracle.

type vpEntry struct {
	kind int // 0 blob, 1 subtree, 2 symlink, 3 gitlink
	idx  int // blob index or tree index
	name string
}

type vpTree struct {
	entries []vpEntry
	data    []byte
}

type vpExp struct {
	dirs, files, bytes, links, subs, depth, plen uint64
}

func VPH_graphTrees() {
	N := vp_Param("trees")
	K := vp_Param("maxentries")
	kinds := vp_Param("kinds") // 2: blobs+subtrees, 4: + symlink, gitlink
	nblobs := 2
	g := NewGraph(NameStyleNone)

	blobSize := make([]uint32, nblobs)
	nsym := vp_Param("symblobs")
	for i := range blobSize {
		if i < nsym {
			blobSize[i] = vp_U32("blobsize")
		} else {
			blobSize[i] = 1 << 31 // two of these exceed 2^32 in the 64-bit byte totals
		}
	}
	trees := make([]vpTree, N)
	for i := 0; i < N; i++ {
		ne := vp_Choice("nentries", K+1)
		for e := 0; e < ne; e++ {
			// targets: b0, b1, any later tree, (symlink, gitlink)
			nsub := N - 1 - i
			opts := nblobs + nsub
			if kinds >= 4 {
				opts += 2
			}
			c := vp_Choice("target", opts)
			ent := vpEntry{name: vpEntryNames[e]}
			var mode string
			var oid git.OID
			switch {
			case c < nblobs:
				ent.kind, ent.idx, mode, oid = 0, c, "100644", vpMkOID('b', c)
			case c < nblobs+nsub:
				ent.kind, ent.idx, mode, oid = 1, i+1+(c-nblobs), "40000", vpMkOID('t', i+1+(c-nblobs))
			case c == nblobs+nsub:
				ent.kind, mode, oid = 2, "120000", vpMkOID('l', 0)
			default:
				ent.kind, mode, oid = 3, "160000", vpMkOID('s', 0)
			}
			trees[i].entries = append(trees[i].entries, ent)
			trees[i].data = append(trees[i].data, mode...)
			trees[i].data = append(trees[i].data, ' ')
			trees[i].data = append(trees[i].data, ent.name...)
			trees[i].data = append(trees[i].data, 0)
			trees[i].data = append(trees[i].data, oid.Bytes()...)
		}
	}

	// deliver: blobs first (as the scan does), then the trees in a free order
	for i := range blobSize {
		g.RegisterBlob(vpMkOID('b', i), counts.Count32(blobSize[i]))
	}
	// symlink targets are blobs too; git lists them, the scan registers them
	g.RegisterBlob(vpMkOID('l', 0), 7)
	order := vpPerm(N)
	for _, i := range order {
		t, err := git.ParseTree(vpMkOID('t', i), trees[i].data)
		vp_Assert(err == nil, "ParseTree ok")
		panicked := vp_Catch(func() { err = g.RegisterTree(vpMkOID('t', i), t) })
		vp_Assert(!panicked, "RegisterTree does not panic in any delivery order")
		vp_Assert(err == nil, "RegisterTree ok")
		if panicked {
			return
		}
	}
	var hs HistorySize
	panicked := vp_Catch(func() { hs = g.HistorySize() })
	vp_Assert(!panicked, "nothing left pending after all trees were delivered")
	if panicked {
		return
	}

	// ---- oracle: recursive expansion, independent of delivery order
	exp := make([]vpExp, N)
	for i := N - 1; i >= 0; i-- {
		x := vpExp{dirs: 1}
		for _, e := range trees[i].entries {
			L := uint64(len(e.name))
			switch e.kind {
			case 0:
				x.files++
				x.bytes += uint64(blobSize[e.idx])
				x.depth = vpMax(x.depth, 1)
				x.plen = vpMax(x.plen, L)
			case 1:
				c := exp[e.idx]
				x.dirs += c.dirs
				x.files += c.files
				x.bytes += c.bytes
				x.links += c.links
				x.subs += c.subs
				x.depth = vpMax(x.depth, c.depth+1)
				if c.plen > 0 {
					x.plen = vpMax(x.plen, L+1+c.plen)
				} else {
					x.plen = vpMax(x.plen, L)
				}
			case 2:
				x.links++
				x.depth = vpMax(x.depth, 1)
				x.plen = vpMax(x.plen, L)
			case 3:
				x.subs++
				x.depth = vpMax(x.depth, 1)
				x.plen = vpMax(x.plen, L)
			}
		}
		exp[i] = x
	}
	var want vpNums
	want[vpiBlobs] = uint64(nblobs) + 1
	want[vpiBlobBytes] = 7
	for i := range blobSize {
		want[vpiBlobBytes] += uint64(blobSize[i])
		want[vpiMaxBlob] = vpMax(want[vpiMaxBlob], uint64(blobSize[i]))
	}
	want[vpiMaxBlob] = vpMax(want[vpiMaxBlob], 7)
	want[vpiTrees] = uint64(N)
	edges := 0
	for i := 0; i < N; i++ {
		want[vpiTreeBytes] += uint64(len(trees[i].data))
		ne := uint64(len(trees[i].entries))
		want[vpiEntries] += ne
		want[vpiMaxEntries] = vpMax(want[vpiMaxEntries], ne)
		want[vpiPDepth] = vpMax(want[vpiPDepth], exp[i].depth)
		want[vpiPLen] = vpMax(want[vpiPLen], exp[i].plen)
		want[vpiXTrees] = vpMax(want[vpiXTrees], exp[i].dirs)
		want[vpiXBlobs] = vpMax(want[vpiXBlobs], exp[i].files)
		want[vpiXBytes] = vpMax(want[vpiXBytes], exp[i].bytes)
		want[vpiXLinks] = vpMax(want[vpiXLinks], exp[i].links)
		want[vpiXSubs] = vpMax(want[vpiXSubs], exp[i].subs)
		for _, e := range trees[i].entries {
			if e.kind == 1 {
				edges++
			}
		}
	}
	vpExpect(vpNumbers(&hs), want, "graph")
	// linear work (C05): one initialisation per distinct tree, one addDescendent per stored tree edge
	if vp_Native() {
		vp_Reach("end")
		return
	}
	// (a call count of -1 means the function no longer exists under that name: no verdict then)
	if c := vp_Calls("(*github.com/github/git-sizer/sizes.treeRecord).initialize"); c >= 0 {
		vp_Assert(c == N, "each distinct tree is initialised exactly once")
	}
	if c := vp_Calls("(*github.com/github/git-sizer/sizes.TreeSize).addDescendent"); c >= 0 {
		vp_Assert(c == edges, "one addDescendent per stored subtree edge (not per expansion)")
	}
	if c := vp_Calls("(*github.com/github/git-sizer/sizes.Graph).finalizeTreeSize"); c >= 0 {
		vp_Assert(c == N, "each tree is finalised exactly once")
	}
	vp_Reach("end")
}
