package main

import (
	"encoding/json"
	"flag"
	"fmt"
	"os"
	"strings"

	"verif/engine/symex"
)

func main() {
	repo := flag.String("repo", "/repo", "repository directory")
	module := flag.String("module", "github.com/github/git-sizer", "module path")
	hdir := flag.String("harness", "/verif/harness", "harness overlay root")
	entry := flag.String("entry", "", "pkgpath.Func")
	workers := flag.Int("workers", 16, "")
	trace := flag.Bool("trace", false, "")
	logsmt := flag.String("logsmt", "", "")
	maxPaths := flag.Int("maxpaths", 100000, "")
	params := flag.String("params", "", "k=v,k=v")
	intMode := flag.Bool("int", false, "Int back end")
	solver := flag.String("solver", "z3", "")
	flag.Parse()
	ov, err := symex.ReadOverlayDir(*hdir, *repo)
	if err != nil {
		fmt.Fprintln(os.Stderr, err)
		os.Exit(2)
	}
	in, _, err := symex.Load(symex.LoadConfig{RepoDir: *repo, Module: *module, Patterns: []string{"./..."}, Overlay: ov})
	if err != nil {
		fmt.Fprintln(os.Stderr, "load:", err)
		os.Exit(2)
	}
	in.Trace = *trace
	i := strings.LastIndex(*entry, ".")
	fn := in.FindFunc((*entry)[:i], (*entry)[i+1:])
	if fn == nil {
		fmt.Fprintln(os.Stderr, "no such function", *entry)
		os.Exit(2)
	}
	pm := map[string]int64{}
	for _, kv := range strings.Split(*params, ",") {
		if i := strings.Index(kv, "="); i > 0 {
			var v int64
			fmt.Sscan(kv[i+1:], &v)
			pm[kv[:i]] = v
		}
	}
	res := in.Explore(symex.ExploreConfig{IntMode: *intMode, Solver: *solver, TimeoutMs: 30000, Params: pm, Entry: fn, Workers: *workers, LogSMT: *logsmt, MaxPaths: *maxPaths, KeepFuncs: true})
	for _, p := range res.Paths {
		b, _ := json.Marshal(struct {
			D []int64
			O string
			A []symex.AssertRec
			R []string
			S int
			Q int
		}{p.Decisions, p.Outcome, p.Asserts, p.Reach, p.Steps, p.Queries})
		fmt.Println(string(b))
	}
	fmt.Printf("paths=%d queries=%d solver=%v wall=%v maxq=%.1fms errs=%v trunc=%v\n", len(res.Paths), res.Queries, res.SolverTime, res.Wall, res.MaxQueryMs, res.SolverErrors, res.Truncated)
}
