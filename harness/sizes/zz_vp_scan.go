package sizes

import (
	"context"
	"errors"
	"os/exec"

	"github.com/github/git-sizer/counts"
	"github.com/github/git-sizer/git"
	"github.com/github/git-sizer/meter"
	"github.com/github/go-pipe/pipe"
)

// H-scan / H-scan-faults (C01 roots & dispatch, C03 request order, C07
// reference tallies, C10 all-or-nothing): the real ScanRepositoryUsingGraph
// (and the real NewObjectIter / NewBatchObjectIter constructors) over a
// scripted repository; the subprocess pipeline is replaced at its boundary.

type vpObj struct {
	oid  git.OID
	typ  string
	data []byte // for trees/commits/tags
	size uint32 // blobs: listed size
}

type vpScan struct {
	objs             map[git.OID]*vpObj
	listing          []*vpObj
	addRoots         []git.OID
	requests         []git.OID
	commands         [][]string
	nextFirst        int
	nextSecond       int
	closed1, closed2 bool
	ordered          bool
	dead1            bool
	fault            int // see VPH_scan
	faultPos         int
	bigTip           bool // vpScript: the newest commit has a longer message than the others
}

var errVPFault = errors.New("injected fault")

const (
	vpfNone = iota
	vpfStart1
	vpfAddRoot
	vpfFirstErr
	vpfFirstUnknown
	vpfStart2
	vpfRequest
	vpfSecondEarly
	vpfSecondWrongType
	vpfSecondErr
	vpfSecondBadBytes
	vpfWaitErr1
	vpfMissingRoot // a fed root names no object: rev-list refuses it ("bad object") unless told to --ignore-missing
	vpfDeadEarly   // rev-list dies before it has read its input: the pipe takes faultPos more roots, then the feeder blocks
	vpfCount
)

func vpInstallScanStubs(sc *vpScan) {
	starts := 0
	vp_Stub("(*github.com/github/git-sizer/git.Repository).GitCommand", func(r *git.Repository, args ...string) *exec.Cmd {
		sc.commands = append(sc.commands, args)
		return &exec.Cmd{}
	})
	vp_Stub("(*github.com/github/go-pipe/pipe.Pipeline).Start", func(p *pipe.Pipeline, ctx context.Context) error {
		starts++
		if (sc.fault == vpfStart1 && starts == 1) || (sc.fault == vpfStart2 && starts == 2) {
			return errVPFault
		}
		return nil
	})
	vp_Stub("(*github.com/github/git-sizer/git.ObjectIter).AddRoot", func(it *git.ObjectIter, oid git.OID) error {
		if sc.dead1 {
			// the pipeline is gone and nobody reads the oid channel any more; the caller's
			// context is never cancelled, so this send would never complete
			vp_BlockForever("AddRoot on a pipeline that has already failed")
		}
		if sc.fault == vpfAddRoot && len(sc.addRoots) == sc.faultPos {
			return errVPFault
		}
		if sc.fault == vpfDeadEarly && len(sc.addRoots) >= sc.faultPos {
			// nobody drains the pipe: once its buffer is full the write never completes,
			// whether or not the scanning goroutine has looked at the output yet
			vp_BlockForever("AddRoot into the full pipe of a rev-list that has died")
		}
		sc.addRoots = append(sc.addRoots, oid)
		return nil
	})
	vp_Stub("(*github.com/github/git-sizer/git.ObjectIter).Close", func(it *git.ObjectIter) { sc.closed1 = true })
	vp_Stub("(*github.com/github/git-sizer/git.ObjectIter).Next", func(it *git.ObjectIter) (git.BatchHeader, bool, error) {
		if !sc.ordered {
			sc.ordered = true
			if !vpRevListGuaranteesOrder(sc.commands) {
				// git promises "no commit before all of its children" only for
				// --date-order/--topo-order without options that override the order;
				// otherwise the environment may list commits oldest first.
				var cs []*vpObj
				for _, o := range sc.listing {
					if o.typ == "commit" {
						cs = append(cs, o)
					}
				}
				k := len(cs) - 1
				for idx, o := range sc.listing {
					if o.typ == "commit" {
						sc.listing[idx] = cs[k]
						k--
					}
				}
			}
		}
		i := sc.nextFirst
		if sc.fault == vpfMissingRoot && i == 0 {
			ignoring := false
			for _, c := range sc.commands {
				if len(c) > 0 && c[0] == "rev-list" {
					for _, a := range c {
						if a == "--ignore-missing" {
							ignoring = true
						}
					}
				}
			}
			if !ignoring {
				sc.dead1 = true
				return git.BatchHeader{ObjectType: "missing"}, false, errVPFault // fatal: bad object <id>
			}
			// with --ignore-missing git drops the root silently and lists the rest
		}
		if sc.fault == vpfDeadEarly {
			sc.dead1 = true
			return git.BatchHeader{ObjectType: "missing"}, false, errVPFault
		}
		if sc.fault == vpfFirstErr && i == sc.faultPos {
			// rev-list died: if that happens before anything was listed, the feeder may not even have started
			sc.dead1 = true
			return git.BatchHeader{ObjectType: "missing"}, false, errVPFault
		}
		// output appears only once roots have been fed: the reader waits for the feeder
		vp_Yield()
		if i >= len(sc.listing) {
			if sc.fault == vpfWaitErr1 {
				return git.BatchHeader{ObjectType: "missing"}, false, errVPFault // rev-list / cat-file exited non-zero
			}
			return git.BatchHeader{ObjectType: "missing"}, false, nil
		}
		sc.nextFirst++
		o := sc.listing[i]
		h := git.BatchHeader{OID: o.oid, ObjectType: git.ObjectType(o.typ), ObjectSize: counts.Count32(o.size)}
		if o.typ != "blob" {
			h.ObjectSize = counts.Count32(len(o.data))
		}
		if sc.fault == vpfFirstUnknown && i == sc.faultPos {
			h.ObjectType = "bogus"
		}
		return h, true, nil
	})
	vp_Stub("(*github.com/github/git-sizer/git.BatchObjectIter).RequestObject", func(it *git.BatchObjectIter, oid git.OID) error {
		if sc.fault == vpfRequest && len(sc.requests) == sc.faultPos {
			return errVPFault
		}
		sc.requests = append(sc.requests, oid)
		return nil
	})
	vp_Stub("(*github.com/github/git-sizer/git.BatchObjectIter).Close", func(it *git.BatchObjectIter) { sc.closed2 = true })
	vp_Stub("(*github.com/github/git-sizer/git.BatchObjectIter).Next", func(it *git.BatchObjectIter) (git.ObjectRecord, bool, error) {
		vp_Yield() // answers appear only after the requests were written
		i := sc.nextSecond
		missing := git.ObjectRecord{BatchHeader: git.BatchHeader{ObjectType: "missing"}}
		if i >= len(sc.requests) {
			return missing, false, nil
		}
		if i == sc.faultPos {
			switch sc.fault {
			case vpfSecondEarly:
				return missing, false, nil
			case vpfSecondErr:
				return missing, false, errVPFault
			}
		}
		sc.nextSecond++
		o := sc.objs[sc.requests[i]]
		rec := git.ObjectRecord{BatchHeader: git.BatchHeader{OID: o.oid, ObjectType: git.ObjectType(o.typ), ObjectSize: counts.Count32(len(o.data))}, Data: o.data}
		if i == sc.faultPos {
			switch sc.fault {
			case vpfSecondWrongType:
				rec.ObjectType = "blob"
			case vpfSecondBadBytes:
				rec.Data = []byte("garbage without structure")
			}
		}
		return rec, true, nil
	})
}

func vpHex(o git.OID) string { return o.String() }

// vpRevListGuaranteesOrder: the part of git's contract the commit loop relies on.
func vpRevListGuaranteesOrder(commands [][]string) bool {
	for _, c := range commands {
		if len(c) == 0 || c[0] != "rev-list" {
			continue
		}
		ordered := false
		for _, a := range c[1:] {
			switch a {
			case "--date-order", "--topo-order":
				ordered = true
			case "--use-bitmap-index", "--reverse", "--no-walk", "--unsorted-input", "--author-date-order":
				return false
			}
		}
		return ordered
	}
	return false
}

// vpScript builds the scripted repository: two blobs, one tree, 0..2 commits, 0..1 tag.
func vpScript(sc *vpScan, ncommits int, withTag bool, s0, s1 uint32) {
	sc.objs = map[git.OID]*vpObj{}
	add := func(o *vpObj) *vpObj { sc.objs[o.oid] = o; return o }
	b0 := add(&vpObj{oid: vpMkOID('b', 0), typ: "blob", size: s0})
	b1 := add(&vpObj{oid: vpMkOID('b', 1), typ: "blob", size: s1})
	var td []byte
	for i, b := range []*vpObj{b0, b1} {
		td = append(td, "100644 "...)
		td = append(td, vpEntryNames[i]...)
		td = append(td, 0)
		td = append(td, b.oid.Bytes()...)
	}
	t0 := add(&vpObj{oid: vpMkOID('t', 0), typ: "tree", data: td})
	var commits []*vpObj
	for i := 0; i < ncommits; i++ {
		d := "tree " + vpHex(t0.oid) + "\n"
		if i > 0 {
			d += "parent " + vpHex(commits[i-1].oid) + "\n"
		}
		d += "author A <a@b> 1 +0000\ncommitter A <a@b> 1 +0000\n\nmsg\n"
		if sc.bigTip && i == ncommits-1 {
			d += "a longer message\n"
		}
		commits = append(commits, add(&vpObj{oid: vpMkOID('c', i), typ: "commit", data: []byte(d)}))
	}
	var tag *vpObj
	if withTag {
		ref, kind := t0.oid, "tree"
		if ncommits > 0 {
			ref, kind = commits[ncommits-1].oid, "commit"
		}
		tag = add(&vpObj{oid: vpMkOID('g', 0), typ: "tag", data: []byte("object " + vpHex(ref) + "\ntype " + kind + "\ntag v\ntagger T <t@u> 3 +0000\n\nm\n")})
	}
	// git's listing: tag, commits newest first, then trees and blobs
	if tag != nil {
		sc.listing = append(sc.listing, tag)
	}
	for i := ncommits - 1; i >= 0; i-- {
		sc.listing = append(sc.listing, commits[i])
	}
	sc.listing = append(sc.listing, t0, b0, b1)
}

func VPH_scan() {
	sc := &vpScan{}
	ncommits := vp_Choice("commits", 3)
	withTag := vp_Choice("tag", 2) == 1
	s0, s1 := uint32(5), uint32(1<<31)
	if vp_Param("symsizes") == 1 {
		s0 = vp_U32("s0")
	}
	vpScript(sc, ncommits, withTag, s0, s1)
	if vp_Choice("listing-variant", 2) == 1 {
		// another listing git could print: blobs and trees first, tag last
		// (commits stay newest-first: that part is git's contract)
		var a, b, c []*vpObj
		for _, o := range sc.listing {
			switch o.typ {
			case "blob", "tree":
				a = append([]*vpObj{o}, a...)
			case "commit":
				b = append(b, o)
			default:
				c = append(c, o)
			}
		}
		sc.listing = append(append(a, b...), c...)
	}
	nobj := len(sc.listing)
	withFaults := vp_Param("faults") == 1
	if withFaults {
		sc.fault = vp_Choice("fault", vpfCount)
		sc.faultPos = vp_Choice("faultpos", nobj+1)
	}
	// roots: up to 3, each a reference (walked or not, free) or an explicit root
	nroots := 1 + vp_Choice("roots", vp_Param("maxroots"))
	var roots []Root
	var wantAdd []git.OID
	nrefs := 0
	tally := map[RefGroupSymbol]int{}
	top := sc.listing[0].oid
	for i := 0; i < nroots; i++ {
		switch vp_Choice("rootkind", 3) {
		case 0:
			roots = append(roots, NewExplicitRoot("x", top))
			wantAdd = append(wantAdd, top)
		case 1:
			// overlapping refgroups: group lists of equal length that differ only in the middle
			mid := []RefGroupSymbol{"branches", "tags"}[vp_Choice("midgroup", 2)]
			roots = append(roots, RefRoot{ref: git.Reference{Refname: "refs/heads/m", OID: top}, walk: true, groups: []RefGroupSymbol{"", mid, "wip"}})
			wantAdd = append(wantAdd, top)
			nrefs++
			tally[""]++
			tally[mid]++
			tally["wip"]++
		case 2:
			// an unselected reference, possibly pointing at the very object a selected root names
			zoid := vpMkOID('c', 77)
			if vp_Choice("unselected-same-object", 2) == 1 {
				zoid = top
			}
			roots = append(roots, RefRoot{ref: git.Reference{Refname: "refs/z", OID: zoid}, walk: false, groups: []RefGroupSymbol{"ignored"}})
			nrefs++
			tally["ignored"]++
		}
	}
	vpInstallScanStubs(sc)
	// two schedules: goroutines run at spawn, or only when the scanning goroutine blocks/yields
	// (a feeder that blocks for good can only be expressed in the second one: in the first the
	// goroutine is run to completion inside the `go` statement)
	lazy := vp_Choice("lazy-goroutines", 2) == 1
	if sc.fault == vpfDeadEarly {
		vp_Assume(lazy)
	}
	vp_LazyGoroutines(lazy)

	var hs HistorySize
	var err error
	panicked := vp_Catch(func() {
		hs, err = ScanRepositoryUsingGraph(context.Background(), &git.Repository{}, roots, NameStyleNone, meter.NoProgressMeter)
	})
	vp_Assert(!panicked, "the scan neither panics nor blocks forever")
	if panicked {
		return
	}

	// which faults actually strike on this path?
	struck := false
	nTCT := nobj - 2 // trees + commits + tags requested in the second pass
	switch sc.fault {
	case vpfStart1, vpfStart2, vpfWaitErr1, vpfDeadEarly, vpfMissingRoot:
		struck = true
	case vpfAddRoot:
		struck = sc.faultPos < len(wantAdd)
	case vpfFirstErr:
		struck = sc.faultPos <= nobj
	case vpfFirstUnknown:
		struck = sc.faultPos < nobj
	case vpfRequest, vpfSecondEarly, vpfSecondWrongType, vpfSecondErr, vpfSecondBadBytes:
		struck = sc.faultPos < nTCT
	}
	if sc.fault == vpfSecondWrongType && struck {
		// a blob where a tree was expected is detected; (a tree is expected first, then commits, then tags)
	}
	if struck {
		vp_Assert(err != nil, "a fault anywhere makes the scan fail")
		var zero vpNums
		vpExpect(vpNumbers(&hs), zero, "no partial result on failure")
		vp_Assert(hs.ReferenceGroups == nil, "no partial tallies on failure")
		vp_Reach("fault")
		return
	}
	vp_Assert(err == nil, "a fault-free scan succeeds")
	if err != nil {
		return
	}
	// roots: exactly the walked roots are fed, in order; unselected references contribute nothing
	// (as sets: feeding one object twice or once is the same walk)
	for _, w := range wantAdd {
		found := false
		for _, a := range sc.addRoots {
			if a == w {
				found = true
			}
		}
		vp_Assert(found, "every selected root is fed to rev-list")
	}
	for _, a := range sc.addRoots {
		found := false
		for _, w := range wantAdd {
			if a == w {
				found = true
			}
		}
		vp_Assert(found, "nothing but the selected roots is fed (unselected references contribute nothing)")
	}
	vp_Assert(sc.closed1 && sc.closed2, "both pipelines' inputs are closed")
	// request order: trees as listed, commits in reverse listing order, tags as listed
	var wantReq []git.OID
	for _, o := range sc.listing {
		if o.typ == "tree" {
			wantReq = append(wantReq, o.oid)
		}
	}
	for i := len(sc.listing) - 1; i >= 0; i-- {
		if sc.listing[i].typ == "commit" {
			wantReq = append(wantReq, sc.listing[i].oid)
		}
	}
	for _, o := range sc.listing {
		if o.typ == "tag" {
			wantReq = append(wantReq, o.oid)
		}
	}
	vp_Assert(len(sc.requests) == len(wantReq), "every tree, commit and tag is requested exactly once")
	for i := 0; i < len(wantReq) && i < len(sc.requests); i++ {
		vp_Assert(sc.requests[i] == wantReq[i], "request order: trees, commits oldest-listed-last first, tags")
	}
	// the commands: rev-list must ask for --date-order (parents-first contract), cat-file twice
	sawRevList := false
	for _, c := range sc.commands {
		if len(c) > 0 && c[0] == "rev-list" {
			sawRevList = true
			has := func(s string) bool {
				for _, a := range c {
					if a == s {
						return true
					}
				}
				return false
			}
			// --objects/--stdin are what makes rev-list list trees and blobs and accept the fed roots;
			// the ordering options are not asserted literally: the stub above lists commits
			// oldest-first unless the argv warrants git's parents-last order
			vp_Assert(has("--objects") && has("--stdin"), "rev-list --objects --stdin")
		}
	}
	vp_Assert(sawRevList, "rev-list is the enumerator")
	// census
	var want vpNums
	want[vpiBlobs] = 2
	want[vpiBlobBytes] = uint64(s0) + uint64(s1)
	want[vpiMaxBlob] = vpMax(uint64(s0), uint64(s1))
	want[vpiTrees] = 1
	t0 := sc.objs[vpMkOID('t', 0)]
	want[vpiTreeBytes] = uint64(len(t0.data))
	want[vpiEntries] = 2
	want[vpiMaxEntries] = 2
	want[vpiCommits] = uint64(ncommits)
	for i := 0; i < ncommits; i++ {
		n := uint64(len(sc.objs[vpMkOID('c', i)].data))
		want[vpiCommitBytes] += n
		want[vpiMaxCommit] = vpMax(want[vpiMaxCommit], n)
	}
	want[vpiDepth] = uint64(ncommits)
	if ncommits == 2 {
		want[vpiParents] = 1
	}
	if withTag {
		want[vpiTags] = 1
		want[vpiTagDepth] = 1
	}
	want[vpiRefs] = uint64(nrefs)
	want[vpiPDepth] = 1
	want[vpiPLen] = 3 // the longer of the two entry names
	want[vpiXTrees] = 1
	want[vpiXBlobs] = 2
	want[vpiXBytes] = uint64(s0) + uint64(s1)
	vpExpect(vpNumbers(&hs), want, "scan")
	vp_Assert(len(hs.ReferenceGroups) == len(tally), "exactly the groups that were hit")
	for sym, n := range tally {
		c := hs.ReferenceGroups[sym]
		vp_Assert(c != nil && uint64(*c) == uint64(n), "group tally = number of references carrying it")
	}
	vp_Reach("ok")
}

type vpGrouper struct {
	seen *[]string
}

func (g vpGrouper) Categorize(refname string) (bool, []RefGroupSymbol) {
	*g.seen = append(*g.seen, refname)
	walk := len(refname)%2 == 0
	if walk {
		return true, vpGroupsOf(refname)
	}
	return false, []RefGroupSymbol{"ignored"}
}

// vpGroupsOf: overlapping refgroups - neighbouring references get lists of the
// same length and the same innermost symbol that differ in the middle.
func vpGroupsOf(refname string) []RefGroupSymbol {
	mid := RefGroupSymbol("tags")
	if len(refname) > 5 && refname[5] == 'h' {
		mid = "branches"
	}
	return []RefGroupSymbol{"", mid, "rel"}
}
func (g vpGrouper) Groups() []RefGroup { return nil }

// VPH_collectReferences (C07, C10): every reference git lists becomes exactly
// one root, in order, carrying what the grouper said; a failing listing
// yields an error and no partial list.
func VPH_collectReferences() {
	if vp_Native() {
		vp_Reach("end")
		return
	}
	names := []string{"refs/heads/a", "refs/tags/vv", "refs/heads/bb", "refs/x"}
	n := vp_Choice("refs", len(names)+1)
	fault := vp_Choice("fault", 3) // 0 none, 1 NewReferenceIter fails, 2 listing fails after faultPos refs
	faultPos := vp_Choice("faultpos", n+1)
	i := 0
	vp_Stub("(*github.com/github/git-sizer/git.Repository).NewReferenceIter", func(r *git.Repository, ctx context.Context) (*git.ReferenceIter, error) {
		if fault == 1 {
			return nil, errVPFault
		}
		return &git.ReferenceIter{}, nil
	})
	vp_Stub("(*github.com/github/git-sizer/git.ReferenceIter).Next", func(it *git.ReferenceIter) (git.Reference, bool, error) {
		if fault == 2 && i == faultPos {
			return git.Reference{}, false, errVPFault
		}
		if i >= n {
			return git.Reference{}, false, nil
		}
		// consecutive references may point at the same object (a branch and a lightweight tag)
		r := git.Reference{Refname: names[i], OID: vpMkOID('c', i/2), ObjectType: "commit", ObjectSize: counts.Count32(100 + i)}
		i++
		return r, true, nil
	})
	var seen []string
	roots, err := CollectReferences(context.Background(), &git.Repository{}, vpGrouper{&seen})
	if fault != 0 {
		vp_Assert(err != nil && roots == nil, "a failing reference listing is an error, no partial list")
		vp_Reach("fault")
		return
	}
	vp_Assert(err == nil && len(roots) == n, "one root per listed reference")
	for k := 0; k < n && k < len(roots); k++ {
		r := roots[k]
		vp_Assert(r.Name() == names[k] && r.OID() == vpMkOID('c', k/2), "references in git's order")
		vp_Assert(r.Walk() == (len(names[k])%2 == 0), "selection as decided by the grouper")
		vp_Assert(len(seen) > k && seen[k] == names[k], "each reference categorised once, in order")
		if r.Walk() {
			want := vpGroupsOf(names[k])
			got := r.Groups()
			vp_Assert(len(got) == len(want), "groups as decided by the grouper")
			for j := 0; j < len(want) && j < len(got); j++ {
				vp_Assert(got[j] == want[j], "each reference carries exactly the groups the grouper gave it")
			}
		} else {
			vp_Assert(len(r.Groups()) == 1 && r.Groups()[0] == "ignored", "an unselected reference carries only Ignored")
		}
	}
	vp_Assert(len(seen) == n, "no reference categorised twice")
	vp_Reach("end")
}

// VPH_scanOddRoots (C01, C03): root selections that reach only part of the
// object kinds - a chain of 1..2 annotated tags ending in a blob (no commit,
// no tree), a lone blob, a lone (empty) tree - are censused like any other:
// every listed object is counted, whichever kinds are absent.
func VPH_scanOddRoots() {
	sc := &vpScan{objs: map[git.OID]*vpObj{}}
	add := func(o *vpObj) *vpObj { sc.objs[o.oid] = o; return o }
	size := vp_U32("blobsize")
	b0 := add(&vpObj{oid: vpMkOID('b', 0), typ: "blob", size: size})
	var want vpNums
	shape := vp_Choice("shape", 4)
	switch shape {
	case 0, 1: // 1 or 2 tags, the innermost naming the blob
		g0 := add(&vpObj{oid: vpMkOID('g', 0), typ: "tag", data: []byte("object " + vpHex(b0.oid) + "\ntype blob\ntag key\ntagger T <t@u> 3 +0000\n\nm\n")})
		want[vpiTags], want[vpiTagDepth] = 1, 1
		if shape == 1 {
			g1 := add(&vpObj{oid: vpMkOID('g', 1), typ: "tag", data: []byte("object " + vpHex(g0.oid) + "\ntype tag\ntag outer\ntagger T <t@u> 4 +0000\n\nm\n")})
			sc.listing = append(sc.listing, g1)
			want[vpiTags], want[vpiTagDepth] = 2, 2
		}
		sc.listing = append(sc.listing, g0, b0)
		want[vpiBlobs], want[vpiBlobBytes], want[vpiMaxBlob] = 1, uint64(size), uint64(size)
	case 2: // a ROOT naming a blob
		sc.listing = append(sc.listing, b0)
		want[vpiBlobs], want[vpiBlobBytes], want[vpiMaxBlob] = 1, uint64(size), uint64(size)
	case 3: // a ROOT naming the empty tree
		t0 := add(&vpObj{oid: vpMkOID('t', 0), typ: "tree", data: nil})
		sc.listing = append(sc.listing, t0)
		want[vpiTrees], want[vpiXTrees] = 1, 1
	}
	top := sc.listing[0].oid
	var roots []Root
	if vp_Choice("rootkind", 2) == 0 {
		roots = append(roots, NewExplicitRoot("x", top))
	} else {
		roots = append(roots, RefRoot{ref: git.Reference{Refname: "refs/tags/k", OID: top}, walk: true, groups: []RefGroupSymbol{"", "tags"}})
		want[vpiRefs] = 1
	}
	vpInstallScanStubs(sc)
	vp_LazyGoroutines(vp_Choice("lazy-goroutines", 2) == 1)
	var hs HistorySize
	var err error
	panicked := vp_Catch(func() {
		hs, err = ScanRepositoryUsingGraph(context.Background(), &git.Repository{}, roots, NameStyleNone, meter.NoProgressMeter)
	})
	vp_Assert(!panicked, "the scan neither panics nor blocks forever")
	if panicked {
		return
	}
	vp_Assert(err == nil, "a fault-free scan succeeds")
	if err != nil {
		return
	}
	vpExpect(vpNumbers(&hs), want, "scan")
	vp_Reach("ok")
}
