package git

import (
	"errors"
	"io/fs"
	"os"
	"os/exec"
	"syscall"
)

// H-gitcmd / H-isfull (C13): how every git command is constructed, and the
// refusal of shallow repositories.

var vpEnvMenu = []string{"PATH=/usr/bin", "GIT_DIR=/elsewhere", "GIT_GRAFT_FILE=/tmp/grafts", "GIT_REPLACE_REF_BASE=refs/r", "HOME=/h"}

func VPH_gitCommand() {
	if vp_Native() {
		vp_Reach("end")
		return
	}
	var env []string
	m := vp_Choice("envcount", 4)
	for i := 0; i < m; i++ {
		env = append(env, vpEnvMenu[vp_Choice("env", len(vpEnvMenu))])
	}
	vp_Stub("os.Environ", func() []string { return env })
	vp_Stub("os/exec.Command", func(name string, arg ...string) *exec.Cmd {
		return &exec.Cmd{Path: name, Args: append([]string{name}, arg...)}
	})
	k := vp_Choice("argcount", 4)
	var args []string
	for i := 0; i < k; i++ {
		args = append(args, "a"+vp_Str("arg", 2))
	}
	gitDir := "/r/" + vp_Str("gitdir", 2)
	repo := &Repository{gitDir: gitDir, gitBin: "/usr/bin/git"}
	cmd := repo.GitCommand(args...)

	want := append([]string{"/usr/bin/git", "--no-replace-objects", "-c", "advice.graftFileDeprecated=false"}, args...)
	vp_Assert(len(cmd.Args) == len(want), "argv = git, --no-replace-objects, -c advice.graftFileDeprecated=false, caller args")
	for i := 0; i < len(want) && i < len(cmd.Args); i++ {
		vp_Assert(cmd.Args[i] == want[i], "argv element")
	}
	// environment: everything inherited first, then GIT_DIR and GIT_GRAFT_FILE (exec uses the last duplicate)
	n := len(cmd.Env)
	vp_Assert(n == len(env)+2, "environment = inherited + 2")
	if n >= 2 {
		vp_Assert(cmd.Env[n-2] == "GIT_DIR="+gitDir, "GIT_DIR set to the repository, after anything inherited")
		vp_Assert(cmd.Env[n-1] == "GIT_GRAFT_FILE="+os.DevNull, "grafts disabled, after anything inherited")
	}
	for i := 0; i < len(env) && i < n; i++ {
		vp_Assert(cmd.Env[i] == env[i], "inherited environment kept in order")
	}
	vp_Reach("end")
}

func VPH_isFull() {
	if vp_Native() {
		vp_Reach("end")
		return
	}
	vp_Stub("github.com/github/git-sizer/git.findGitBin", func() (string, error) { return "/usr/bin/git", nil })
	gitPathFails := vp_Choice("gitpath-fails", 2) == 1
	var commands [][]string
	vp_Stub("(*github.com/github/git-sizer/git.Repository).GitCommand", func(r *Repository, args ...string) *exec.Cmd {
		commands = append(commands, args)
		return &exec.Cmd{}
	})
	vp_Stub("(*os/exec.Cmd).Output", func(c *exec.Cmd) ([]byte, error) {
		if gitPathFails {
			return nil, &exec.ExitError{}
		}
		return []byte(".git/shallow\n"), nil
	})
	lstat := vp_Choice("lstat", 4) // 0 exists, 1 ENOENT, 2 wrapped not-exist, 3 other error
	var statPath string
	vp_Stub("os.Lstat", func(name string) (os.FileInfo, error) {
		statPath = name
		switch lstat {
		case 0:
			return nil, nil
		case 1:
			return nil, &fs.PathError{Op: "lstat", Path: name, Err: syscall.ENOENT}
		case 2:
			return nil, &fs.PathError{Op: "lstat", Path: name, Err: fs.ErrNotExist}
		}
		return nil, &fs.PathError{Op: "lstat", Path: name, Err: errors.New("i/o error")}
	})
	repo, err := NewRepositoryFromGitDir(".git")
	switch {
	case gitPathFails:
		vp_Assert(err != nil && repo == nil, "cannot determine: error")
	case lstat == 0:
		vp_Assert(err != nil && repo == nil, "a shallow clone is refused")
		vp_Reach("shallow-refused")
	case lstat == 1 || lstat == 2:
		vp_Assert(err == nil && repo != nil, "a full clone is accepted")
		if repo != nil {
			vp_Assert(repo.gitDir == ".git", "repository addressed by the given GIT_DIR")
		}
		vp_Reach("full")
	default:
		vp_Assert(err != nil && repo == nil, "an unreadable shallow marker is an error, not 'full'")
	}
	if !gitPathFails {
		vp_Assert(statPath == ".git/shallow", "the path git reports for 'shallow' is the one examined")
		vp_Assert(len(commands) == 1 && len(commands[0]) == 3 && commands[0][0] == "rev-parse" && commands[0][1] == "--git-path" && commands[0][2] == "shallow", "git is asked for the path of 'shallow'")
	}
}

// VPH_repoFromPath (C13): however the repository is addressed, git itself is
// asked (`git -C <path> rev-parse --git-dir`) and its answer becomes GIT_DIR:
// verbatim when absolute, relative to <path> otherwise.
func VPH_repoFromPath() {
	if vp_Native() {
		vp_Reach("end")
		return
	}
	vp_Stub("github.com/github/git-sizer/git.findGitBin", func() (string, error) { return "/usr/bin/git", nil })
	path := []string{".", "sub/dir", "/abs/work", "../up"}[vp_Choice("path", 4)]
	answer := []string{".git", "/abs/work/.git", "../../.git", ".", "/srv/bare.git", ".git/worktrees/wt"}[vp_Choice("answer", 6)]
	trailer := []string{"\n", "", "\r\n", " \n"}[vp_Choice("trailer", 4)]
	fails := vp_Choice("fails", 2) == 1
	var argv []string
	vp_Stub("os/exec.Command", func(name string, arg ...string) *exec.Cmd {
		argv = append([]string{name}, arg...)
		return &exec.Cmd{Path: name, Args: argv}
	})
	vp_Stub("(*os/exec.Cmd).Output", func(c *exec.Cmd) ([]byte, error) {
		if fails {
			return nil, &exec.ExitError{Stderr: []byte("fatal: not a git repository")}
		}
		return []byte(answer + trailer), nil
	})
	var gotDir string
	vp_Stub("github.com/github/git-sizer/git.NewRepositoryFromGitDir", func(gitDir string) (*Repository, error) {
		gotDir = gitDir
		return &Repository{gitDir: gitDir, gitBin: "/usr/bin/git"}, nil
	})
	repo, err := NewRepositoryFromPath(path)
	want := []string{"/usr/bin/git", "-C", path, "rev-parse", "--git-dir"}
	vp_Assert(len(argv) == len(want), "git -C <path> rev-parse --git-dir")
	for i := 0; i < len(want) && i < len(argv); i++ {
		vp_Assert(argv[i] == want[i], "argv element")
	}
	if fails {
		vp_Assert(err != nil && repo == nil, "an absent repository is an error")
		vp_Reach("absent")
		return
	}
	vp_Assert(err == nil && repo != nil, "repository opened")
	wantDir := answer
	if answer[0] != '/' {
		// lexical join, as filepath.Join does
		switch {
		case path == "." && answer == ".":
			wantDir = "."
		case path == ".":
			wantDir = answer
		case answer == ".":
			wantDir = path
		case path == "sub/dir" && answer == "../../.git":
			wantDir = ".git"
		case path == "/abs/work" && answer == "../../.git":
			wantDir = "/.git"
		case path == "../up" && answer == "../../.git":
			wantDir = "../../.git"
		default:
			wantDir = path + "/" + answer
		}
	}
	vp_Assert(gotDir == wantDir, "GIT_DIR is git's answer: verbatim if absolute, else relative to the given path (surrounding white space removed)")
	vp_Reach("end")
}
