package symex

import (
	"fmt"
	"go/token"
	"math"
	"math/big"

	"verif/engine/smt"
)

// Int back end (DESIGN §2.4, B.1): in a harness run with backend "int",
// vp_U64 inputs are mathematical integers in [0, 2^64); unsigned arithmetic on
// them is lowered to LIA with explicit mod 2^w, and float64 values are exact
// dyadic rationals k*2^e whose rounding is stated by linear constraints.
// This avoids bit-blasting 64-bit division/multiplication by large constants.

// XF is a float64 value in the Int back end: either an exact integer
// (exact != nil) or k*2^e with 2^52 <= k <= 2^53.
type XF struct {
	exact *smt.Term // Int
	k     *smt.Term // Int
	e     int
}

var two64 = new(big.Int).Lsh(big.NewInt(1), 64)

func pow2(n int) *smt.Term { return smt.ConstInt(new(big.Int).Lsh(big.NewInt(1), uint(n))) }

func bigPow10(n int) *big.Int { return new(big.Int).Exp(big.NewInt(10), big.NewInt(int64(n)), nil) }

func isIntSort(v Value) bool {
	t, ok := v.(*smt.Term)
	return ok && t.Sort.K == smt.SInt
}

// toInt converts an unsigned BV constant (or Int term) to an Int term.
func (p *Path) toInt(v Value) *smt.Term {
	t := v.(*smt.Term)
	if t.Sort.K == smt.SInt {
		return t
	}
	if t.Sort.K == smt.SBV && t.IsConst() {
		return smt.ConstIntU(t.C)
	}
	p.abortf("Int back end: mixing a symbolic bit-vector with a mathematical integer")
	return nil
}

func iabs(t *smt.Term) *smt.Term {
	zero := smt.ConstIntU(0)
	return smt.Ite(smt.ILt(t, zero), smt.ISub(zero, t), t)
}

func (p *Path) intBinop(op token.Token, ki kindInfo, x, y Value) Value {
	if ki.signed {
		p.abortf("Int back end: signed arithmetic on symbolic integers is not lowered")
	}
	a, b := p.toInt(x), p.toInt(y)
	mod := pow2(ki.w)
	switch op {
	case token.ADD:
		return smt.IMod(smt.IAdd(a, b), mod)
	case token.SUB:
		return smt.IMod(smt.ISub(a, b), mod)
	case token.MUL:
		if !a.IsConst() && !b.IsConst() {
			p.abortf("Int back end: symbolic-by-symbolic multiplication")
		}
		return smt.IMod(smt.IMul(a, b), mod)
	case token.QUO, token.REM:
		if !b.IsConst() {
			p.abortf("Int back end: division by a symbolic value")
		}
		if b.Big.Sign() == 0 {
			panic(targetPanic{msg: "integer divide by zero"})
		}
		if op == token.QUO {
			return smt.IDiv(a, b)
		}
		return smt.IMod(a, b)
	case token.LSS:
		return smt.ILt(a, b)
	case token.LEQ:
		return smt.ILe(a, b)
	case token.GTR:
		return smt.ILt(b, a)
	case token.GEQ:
		return smt.ILe(b, a)
	}
	p.abortf("Int back end: operator %s not lowered", op)
	return nil
}

// xfFromUint lowers float64(n) for an unsigned integer n: exact below 2^53,
// otherwise the nearest multiple of 2^(b-52) (ties to even) in binade b.
func (p *Path) xfFromUint(n *smt.Term) XF {
	if n.IsConst() {
		f, _ := new(big.Float).SetInt(n.Big).Float64()
		bi, _ := new(big.Float).SetFloat64(f).Int(nil)
		return XF{exact: smt.ConstInt(bi)}
	}
	if p.branch(smt.ILt(n, pow2(53))) {
		return XF{exact: n}
	}
	for b := 53; b <= 63; b++ {
		if !p.branch(smt.ILt(n, pow2(b+1))) {
			continue
		}
		u := pow2(b - 52)
		r := p.fresh(fmt.Sprintf("fl.r%d", b), smt.IntS, "int")
		p.assumeOrStop(smt.And(smt.ILe(pow2(52), r), smt.ILe(r, pow2(53))))
		diff := iabs(smt.ISub(n, smt.IMul(u, r)))
		two := smt.ConstIntU(2)
		p.assumeOrStop(smt.ILe(smt.IMul(two, diff), u))
		p.assumeOrStop(smt.Implies(smt.Eq(smt.IMul(two, diff), u), smt.Eq(smt.IMod(r, two), smt.ConstIntU(0))))
		return XF{exact: smt.IMul(u, r)}
	}
	p.abortf("float64(n): n >= 2^64?")
	return XF{}
}

// xfDiv lowers fl(a/b) for exact integers a (symbolic) and b (positive constant).
func (p *Path) xfDiv(a, b XF) XF {
	if a.exact == nil || b.exact == nil || !b.exact.IsConst() || b.exact.Big.Sign() <= 0 {
		p.abortf("Int back end: only integer / positive integer constant divisions are lowered")
	}
	A, B := a.exact, b.exact
	if p.branch(smt.Eq(A, smt.ConstIntU(0))) {
		return XF{exact: smt.ConstIntU(0)}
	}
	two := smt.ConstIntU(2)
	// quotients >= 1 live in binades e = -52..12; smaller ones (down to 2^-64) below
	es := []int{}
	if p.branch(smt.ILe(B, A)) {
		for e := -52; e <= 12; e++ {
			es = append(es, e)
		}
	} else {
		for e := -53; e >= -116; e-- {
			es = append(es, e)
		}
	}
	for _, e := range es {
		// binade: 2^52 <= (A/B)/2^e < 2^53
		var lo, hi *smt.Term
		if e <= 0 {
			s := -e
			lhs := smt.IMul(pow2(s), A)
			lo = smt.ILe(smt.IMul(pow2(52), B), lhs)
			hi = smt.ILt(lhs, smt.IMul(pow2(53), B))
		} else {
			lo = smt.ILe(smt.IMul(pow2(52+e), B), A)
			hi = smt.ILt(A, smt.IMul(pow2(53+e), B))
		}
		if !p.branch(smt.And(lo, hi)) {
			continue
		}
		k := p.fresh(fmt.Sprintf("div.k(e=%d)", e), smt.IntS, "int")
		p.assumeOrStop(smt.And(smt.ILe(pow2(52), k), smt.ILe(k, pow2(53))))
		var diff, unit *smt.Term
		if e <= 0 {
			diff = iabs(smt.ISub(smt.IMul(B, k), smt.IMul(pow2(-e), A)))
			unit = B
		} else {
			diff = iabs(smt.ISub(smt.IMul(smt.IMul(pow2(e), B), k), A))
			unit = smt.IMul(pow2(e), B)
		}
		p.assumeOrStop(smt.ILe(smt.IMul(two, diff), unit))
		p.assumeOrStop(smt.Implies(smt.Eq(smt.IMul(two, diff), unit), smt.Eq(smt.IMod(k, two), smt.ConstIntU(0))))
		return XF{k: k, e: e}
	}
	p.abortf("Int back end: quotient outside the supported binades [2^-64, 2^65)")
	return XF{}
}

// xfScaled returns the integer d that strconv prints for %.Nf of x, i.e. the
// exact value of x times 10^N rounded half to even.
func (p *Path) xfScaled(x XF, N int) *smt.Term {
	ten := smt.ConstInt(bigPow10(N))
	if x.exact != nil {
		return smt.IMul(x.exact, ten)
	}
	if x.e >= 0 {
		return smt.IMul(smt.IMul(pow2(x.e), x.k), ten)
	}
	s := -x.e
	d := p.fresh(fmt.Sprintf("fmt.d(N=%d)", N), smt.IntS, "int")
	p.assumeOrStop(smt.ILe(smt.ConstIntU(0), d))
	two := smt.ConstIntU(2)
	diff := iabs(smt.ISub(smt.IMul(pow2(s), d), smt.IMul(ten, x.k)))
	p.assumeOrStop(smt.ILe(smt.IMul(two, diff), pow2(s)))
	p.assumeOrStop(smt.Implies(smt.Eq(smt.IMul(two, diff), pow2(s)), smt.Eq(smt.IMod(d, two), smt.ConstIntU(0))))
	return d
}

// xfToFloat32 rounds x to the nearest float32 (24-bit significand, ties to
// even); the result is again k*2^e with k a multiple of 2^29. Values here are
// far from float32's exponent limits (1 <= x < 2^65).
func (p *Path) xfToFloat32(x XF) XF {
	if x.exact != nil {
		p.abortf("Int back end: float32 rounding of an integer-valued double is not lowered")
	}
	k32 := p.fresh("f32.k", smt.IntS, "int")
	p.assumeOrStop(smt.And(smt.ILe(pow2(23), k32), smt.ILe(k32, pow2(24))))
	two := smt.ConstIntU(2)
	diff := iabs(smt.ISub(smt.IMul(pow2(29), k32), x.k))
	p.assumeOrStop(smt.ILe(smt.IMul(two, diff), pow2(29)))
	p.assumeOrStop(smt.Implies(smt.Eq(smt.IMul(two, diff), pow2(29)), smt.Eq(smt.IMod(k32, two), smt.ConstIntU(0))))
	return XF{k: smt.IMul(pow2(29), k32), e: x.e}
}

// ---------------------------------------------------------------- general dyadic arithmetic
//
// Every XF is an exact dyadic rational m * 2^e (m an Int term, e a constant):
// the integer form has e = 0, the rounded form has m = k. A float operation
// computes the exact rational result num/den * 2^e (linear in the symbolic
// operand because the other operand, or the exponent, is constant on the
// path) and xfRound states its IEEE rounding to nearest-even by linear
// constraints after forking on the binade of the result. Values are
// non-negative throughout (the code under test formats unsigned counters);
// a feasibly negative value aborts the path.

func (x XF) dy() (*smt.Term, int) {
	if x.exact != nil {
		return x.exact, 0
	}
	return x.k, x.e
}

// xfConst decomposes a non-negative finite constant double.
func (p *Path) xfConst(f float64) XF {
	if f < 0 || math.IsNaN(f) || math.IsInf(f, 0) {
		p.abortf("Int back end: float constant %v is not lowered", f)
	}
	if f == math.Trunc(f) && f < 1.9e19 {
		bi, _ := new(big.Float).SetFloat64(f).Int(nil)
		return XF{exact: smt.ConstInt(bi)}
	}
	frac, exp := math.Frexp(f) // f = frac * 2^exp, 0.5 <= frac < 1
	m := new(big.Int).SetUint64(uint64(math.Ldexp(frac, 53)))
	return XF{k: smt.ConstInt(m), e: exp - 53}
}

func shl(t *smt.Term, n int) *smt.Term {
	if n == 0 {
		return t
	}
	return smt.IMul(pow2(n), t)
}

// xfRound returns the double nearest to num/den * 2^e (den a positive constant).
func (p *Path) xfRound(num *smt.Term, den *big.Int, e int) XF {
	zero := smt.ConstIntU(0)
	if p.branch(smt.ILt(num, zero)) {
		p.abortf("Int back end: negative float value")
	}
	if p.branch(smt.Eq(num, zero)) {
		return XF{exact: zero}
	}
	D := smt.ConstInt(den)
	two := smt.ConstIntU(2)
	// an integer below 2^53 is exact
	if den.Cmp(big.NewInt(1)) == 0 && e >= 0 && e < 53 {
		if p.branch(smt.ILt(shl(num, e), pow2(53))) {
			return XF{exact: shl(num, e)}
		}
	}
	var bs []int
	var ge1 *smt.Term
	if e >= 0 {
		ge1 = smt.ILe(D, shl(num, e))
	} else {
		ge1 = smt.ILe(shl(D, -e), num)
	}
	if p.branch(ge1) {
		for b := -52; b <= 20; b++ {
			bs = append(bs, b)
		}
	} else {
		for b := -53; b >= -130; b-- {
			bs = append(bs, b)
		}
	}
	for _, b := range bs {
		s := e - b
		var lhs, unit *smt.Term // compare lhs against k*unit
		if s >= 0 {
			lhs, unit = shl(num, s), D
		} else {
			lhs, unit = num, shl(D, -s)
		}
		in := smt.And(smt.ILe(smt.IMul(pow2(52), unit), lhs), smt.ILt(lhs, smt.IMul(pow2(53), unit)))
		if !p.branch(in) {
			continue
		}
		k := p.fresh(fmt.Sprintf("fl.k(b=%d)", b), smt.IntS, "int")
		p.assumeOrStop(smt.And(smt.ILe(pow2(52), k), smt.ILe(k, pow2(53))))
		diff := iabs(smt.ISub(smt.IMul(k, unit), lhs))
		p.assumeOrStop(smt.ILe(smt.IMul(two, diff), unit))
		p.assumeOrStop(smt.Implies(smt.Eq(smt.IMul(two, diff), unit), smt.Eq(smt.IMod(k, two), zero)))
		return XF{k: k, e: b}
	}
	p.abortf("Int back end: float result outside the supported binades [2^-78, 2^73)")
	return XF{}
}

func (p *Path) xfAddSub(a, b XF, sub bool) XF {
	m1, e1 := a.dy()
	m2, e2 := b.dy()
	em := e1
	if e2 < em {
		em = e2
	}
	x, y := shl(m1, e1-em), shl(m2, e2-em)
	var num *smt.Term
	if sub {
		num = smt.ISub(x, y)
	} else {
		num = smt.IAdd(x, y)
	}
	return p.xfRound(num, big.NewInt(1), em)
}

func (p *Path) xfMul(a, b XF) XF {
	m1, e1 := a.dy()
	m2, e2 := b.dy()
	if !m1.IsConst() && !m2.IsConst() {
		p.abortf("Int back end: product of two symbolic floats is not linear")
	}
	return p.xfRound(smt.IMul(m1, m2), big.NewInt(1), e1+e2)
}

// xfQuo is the general quotient by a positive constant.
func (p *Path) xfQuo(a, b XF) XF {
	if a.exact != nil && b.exact != nil {
		return p.xfDiv(a, b)
	}
	m1, e1 := a.dy()
	m2, e2 := b.dy()
	if !m2.IsConst() || m2.Big.Sign() <= 0 {
		p.abortf("Int back end: only divisions by a positive constant are lowered")
	}
	return p.xfRound(m1, m2.Big, e1-e2)
}

// xfCmp lowers a < b (lt) or a <= b.
func (p *Path) xfCmp(a, b XF, strict bool) *smt.Term {
	m1, e1 := a.dy()
	m2, e2 := b.dy()
	em := e1
	if e2 < em {
		em = e2
	}
	x, y := shl(m1, e1-em), shl(m2, e2-em)
	if strict {
		return smt.ILt(x, y)
	}
	return smt.ILe(x, y)
}

// xfToIntegral lowers math.RoundToEven (0), Round (1), Ceil (2), Floor (3),
// Trunc (4) for a non-negative value; the result is an exact integer.
func (p *Path) xfToIntegral(x XF, mode int) XF {
	m, e := x.dy()
	if e >= 0 {
		return XF{exact: shl(m, e)}
	}
	s := -e
	zero, two := smt.ConstIntU(0), smt.ConstIntU(2)
	d := p.fresh("fl.int", smt.IntS, "int")
	p.assumeOrStop(smt.ILe(zero, d))
	sd := shl(d, s)
	switch mode {
	case 3, 4:
		p.assumeOrStop(smt.And(smt.ILe(sd, m), smt.ILt(m, shl(smt.IAdd(d, smt.ConstIntU(1)), s))))
	case 2:
		p.assumeOrStop(smt.And(smt.ILt(shl(smt.ISub(d, smt.ConstIntU(1)), s), m), smt.ILe(m, sd)))
	default:
		diff := iabs(smt.ISub(sd, m))
		p.assumeOrStop(smt.ILe(smt.IMul(two, diff), pow2(s)))
		tie := smt.Eq(smt.IMul(two, diff), pow2(s))
		if mode == 1 {
			p.assumeOrStop(smt.Implies(tie, smt.ILe(m, sd))) // half away from zero
		} else {
			p.assumeOrStop(smt.Implies(tie, smt.Eq(smt.IMod(d, two), zero)))
		}
	}
	return XF{exact: d}
}

// decimalDigits returns the number of characters %d prints for the
// non-negative integer t, forking over the feasible digit counts.
func (p *Path) decimalDigits(t *smt.Term) int {
	if p.branch(smt.ILt(t, smt.ConstIntU(0))) {
		p.abortf("decimalDigits: negative operand")
	}
	for nd := 1; nd <= 20; nd++ {
		if p.branch(smt.ILt(t, smt.ConstInt(bigPow10(nd)))) {
			return nd
		}
	}
	p.abortf("decimalDigits: more than 20 digits")
	return 0
}
