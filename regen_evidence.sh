#!/bin/sh
# Re-run every registered quick check on the current /repo and /verif so that the committed
# evidence files describe full runs of the committed machinery (run before committing evidence).
cd "$(dirname "$0")"
export VERIF_SEED=${VERIF_SEED:-1} VERIF_TIER=quick
rc=0
for p in C01 C02 C03 C04 C05 C06 C07 C08 C09 C10 C11 C12 C13 C14 C15 C16 C19; do
  ./check $p --tier quick > /tmp/vp_regen_$p.log 2>&1; r=$?
  tail -1 /tmp/vp_regen_$p.log
  [ $r -ne 0 ] && { echo "  exit=$r"; grep -E "INCONCL|VIOLATION" /tmp/vp_regen_$p.log | head -3; rc=1; }
done
exit $rc
