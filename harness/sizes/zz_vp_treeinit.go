package sizes

import (
	"github.com/github/git-sizer/counts"
	"github.com/github/git-sizer/git"
)

// H-treeinit (C04, C02): one tree whose entries have free mode bits is parsed
// by the real parser and initialised by the real treeRecord; children are
// known (arbitrary sizes) or still unknown. Classification must follow the
// type bits only, whatever the permission bits.

func vpOctalMode(mode uint32) []byte {
	var tmp [11]byte
	i := len(tmp)
	for mode > 0 {
		i--
		tmp[i] = byte('0' + mode&7)
		mode >>= 3
	}
	return tmp[i:]
}

func VPH_treeInit() {
	K := 1 + vp_Choice("entries", vp_Param("maxentries"))
	g := NewGraph(NameStyleNone)
	// with symbolic children the tree is kept pending by one extra unknown
	// subtree, so that the accumulated size is inspected before recordTree
	// (whose per-maximum branches would multiply the paths)
	symChildren := vp_Param("symchildren") == 1
	var data []byte
	var want TreeSize
	want.ExpandedTreeCount = 1
	pending := 0
	wantDepth, wantLen := uint64(0), uint64(0)
	var wTrees, wBlobs, wBytes, wLinks, wSubs uint64 = 1, 0, 0, 0, 0
	for e := 0; e < K; e++ {
		kind := vp_Choice("kind", 4)
		typ := [4]uint32{0o100000, 0o040000, 0o120000, 0o160000}[kind]
		perm := uint32(vp_U16("perm")) & 0o7777
		mode := typ | perm
		name := vpEntryNames[e]
		L := uint64(len(name))
		oid := vpMkOID('e', e)
		switch kind {
		case 0:
			sz := vp_U32("blobsize")
			g.RegisterBlob(oid, counts.Count32(sz))
			wBlobs = vpMin(wBlobs+1, vpCap32)
			wBytes = vpSat64(wBytes, uint64(sz))
			wantDepth = vpMax(wantDepth, 1)
			wantLen = vpMax(wantLen, L)
		case 1:
			if vp_Choice("known", 2) == 1 {
				var c TreeSize
				if symChildren {
					// an arbitrary finalised subtree (full-range counters)
					c = vpFreeTreeSize("child")
					vp_Assume(c.ExpandedTreeCount >= 1)
					vp_Assume((c.MaxPathDepth > 0) == (c.MaxPathLength > 0))
				} else {
					c = TreeSize{
						MaxPathDepth: counts.Count32(vp_Choice("cdepth", 3)), ExpandedTreeCount: counts.Count32(1 + vp_Choice("ctrees", 2)),
						ExpandedBlobCount: counts.Count32(vp_Choice("cblobs", 2)), ExpandedBlobSize: counts.Count64(vp_U32("cbytes")),
					}
					if c.MaxPathDepth > 0 {
						c.MaxPathLength = 5
					}
				}
				g.treeSizes[oid] = c
				wTrees = vpMin(wTrees+uint64(c.ExpandedTreeCount), vpCap32)
				wBlobs = vpMin(wBlobs+uint64(c.ExpandedBlobCount), vpCap32)
				wBytes = vpSat64(wBytes, uint64(c.ExpandedBlobSize))
				wLinks = vpMin(wLinks+uint64(c.ExpandedLinkCount), vpCap32)
				wSubs = vpMin(wSubs+uint64(c.ExpandedSubmoduleCount), vpCap32)
				wantDepth = vpMax(wantDepth, vpMin(uint64(c.MaxPathDepth)+1, vpCap32))
				wantLen = vpMax(wantLen, vp_IteU64(c.MaxPathLength > 0, vpMin(L+1+uint64(c.MaxPathLength), vpCap32), L))
			} else {
				pending++
			}
		case 2:
			wLinks = vpMin(wLinks+1, vpCap32)
			wantDepth = vpMax(wantDepth, 1)
			wantLen = vpMax(wantLen, L)
		case 3:
			wSubs = vpMin(wSubs+1, vpCap32)
			wantDepth = vpMax(wantDepth, 1)
			wantLen = vpMax(wantLen, L)
		}
		data = append(data, vpOctalMode(mode)...)
		data = append(data, ' ')
		data = append(data, name...)
		data = append(data, 0)
		data = append(data, oid.Bytes()...)
	}
	if symChildren {
		pending++
		data = append(data, "40000 zz"...)
		data = append(data, 0)
		data = append(data, vpMkOID('u', 1).Bytes()...)
		K++
		wantLen = vpMax(wantLen, 0) // the unknown subtree contributes only when it arrives
	}
	oid := vpMkOID('t', 9)
	tree, _ := git.ParseTree(oid, data)
	err := g.RegisterTree(oid, tree)
	vp_Assert(err == nil, "RegisterTree ok")
	rec := g.treeRecords[oid]
	final, done := g.treeSizes[oid]
	vp_Assert(done == (pending == 0), "a tree is final exactly when no subtree is outstanding")
	var got TreeSize
	if done {
		got = final
		vp_Assert(rec == nil, "no record left for a final tree")
		vp_Assert(uint64(g.historySize.MaxTreeEntries) == uint64(K) && uint64(g.historySize.UniqueTreeEntries) == uint64(K), "entry count = number of entries, every kind counted")
	} else {
		vp_Assert(rec != nil && int(rec.pending) == pending, "waits for exactly the unknown subtrees")
		if rec == nil {
			return
		}
		got = rec.size
		vp_Assert(uint64(rec.entryCount) == uint64(K), "entry count = number of entries, every kind counted")
	}
	vp_Assert(uint64(got.ExpandedTreeCount) == wTrees, "directories")
	vp_Assert(uint64(got.ExpandedBlobCount) == wBlobs, "files")
	vp_Assert(uint64(got.ExpandedBlobSize) == wBytes, "bytes")
	vp_Assert(uint64(got.ExpandedLinkCount) == wLinks, "symlinks")
	vp_Assert(uint64(got.ExpandedSubmoduleCount) == wSubs, "submodules")
	vp_Assert(uint64(got.MaxPathDepth) == wantDepth, "path depth")
	vp_Assert(uint64(got.MaxPathLength) == wantLen, "path length")
	_ = want
	vp_Reach("end")
}

// VPH_wideTree (C04, C02): a single tree with W entries that all name the same
// not-yet-known subdirectory (W around 2^8 and 2^16, where a narrow bookkeeping
// counter would wrap), nested under a parent; the subdirectory arrives last.
func VPH_wideTree() {
	W := []int{255, 256, 257, 65536, 65535, 65537}[vp_Choice("width", vp_Param("widths"))]
	g := NewGraph(NameStyleNone)
	blob := vpMkOID('b', 0)
	g.RegisterBlob(blob, 5)
	leaf := vpMkOID('t', 1) // the shared subdirectory: one file "f"
	var leafData []byte
	leafData = append(leafData, "100644 f"...)
	leafData = append(leafData, 0)
	leafData = append(leafData, blob.Bytes()...)
	wide := vpMkOID('t', 2)
	var wideData []byte
	for i := 0; i < W; i++ {
		name := "d" + vpItoa6(i)
		wideData = append(wideData, "40000 "...)
		wideData = append(wideData, name...)
		wideData = append(wideData, 0)
		wideData = append(wideData, leaf.Bytes()...)
	}
	root := vpMkOID('t', 3)
	var rootData []byte
	rootData = append(rootData, "40000 w"...)
	rootData = append(rootData, 0)
	rootData = append(rootData, wide.Bytes()...)
	for _, x := range []struct {
		oid  git.OID
		data []byte
	}{{root, rootData}, {wide, wideData}, {leaf, leafData}} {
		t, _ := git.ParseTree(x.oid, x.data)
		if err := g.RegisterTree(x.oid, t); err != nil {
			vp_Fail("RegisterTree")
			return
		}
	}
	var hs HistorySize
	panicked := vp_Catch(func() { hs = g.HistorySize() })
	vp_Assert(!panicked, "nothing left pending")
	if panicked {
		return
	}
	vp_Assert(uint64(hs.MaxExpandedTreeCount) == uint64(W)+2, "directories: root + wide + W subdirectories")
	vp_Assert(uint64(hs.MaxExpandedBlobCount) == uint64(W), "files: one per subdirectory")
	vp_Assert(uint64(hs.MaxExpandedBlobSize) == 5*uint64(W), "bytes")
	vp_Assert(uint64(hs.MaxPathDepth) == 3, "depth w/dNNNNNN/f")
	vp_Assert(uint64(hs.MaxPathLength) == 1+1+7+1+1, "path length of w/dNNNNNN/f")
	vp_Assert(uint64(hs.MaxTreeEntries) == uint64(W) && uint64(hs.UniqueTreeEntries) == uint64(W)+2, "entries")
	vp_Assert(uint64(hs.UniqueTreeCount) == 3, "three distinct trees")
	vp_Reach("end")
}

func vpItoa6(n int) string {
	b := []byte("000000")
	for i := 5; i >= 0; i-- {
		b[i] = byte('0' + n%10)
		n /= 10
	}
	return string(b)
}
