package sizes

import "github.com/github/git-sizer/counts"

// The two harnesses that call the unexported (*item).levelOfConcern directly
// live in a file of their own: a refactoring that changes that method's
// signature drops only this file (its harnesses become INCONCLUSIVE), and the
// table / JSON harnesses of zz_vp_output.go, which go through TableString and
// MarshalJSON, still run.

const vpBangs = "!!!!!!!!!!!!!!!!!!!!!!!!!!!!!!"

// VPH_concern: for one item of the real contents() (chosen by a fork), with
// every counter of the HistorySize free and a free threshold.
func VPH_concern() {
	var hs HistorySize
	vpFreeHistory(&hs)
	items := map[string]*item{}
	hs.contents(nil).CollectItems(items)
	vp_Assert(len(items) == len(vpItemTable), "contents() has exactly the documented items")
	spec := vpItemTable[vpItemOrder[vp_Choice("item", vp_Param("nitems"))]]
	it := items[spec.symbol]
	vp_Assert(it != nil, "item exists: "+spec.symbol)
	if it == nil {
		return
	}
	// wiring: the item shows the documented field (table, JSON v2 and JSON v1 read the same cell)
	v, overflow := it.value.ToUint64()
	want := spec.value(&hs)
	vp_Assert(v == want, "item displays its own field: "+spec.symbol)
	cap := vpCap32
	if spec.is64 {
		cap = vpCap64
	}
	vp_Assert(overflow == (want == cap), "saturated iff the counter is at its capacity")
	vp_Assert(it.scale > 0, "positive reference value")

	t := Threshold(vp_F64("threshold"))
	vp_Assume(t == t) // not NaN
	marker, shown := it.levelOfConcern(t)
	ratio := float64(v) / it.scale
	vp_Assert(shown == (overflow || !(Threshold(ratio) < t)), "row shown iff saturated or value/reference >= threshold")
	if shown {
		if overflow || ratio > 30 {
			vp_Assert(marker == vpBangs, "saturated or beyond 30: thirty exclamation marks")
		} else {
			n := len(marker)
			vp_Assert(n <= 30, "at most 30 asterisks")
			vp_Assert(vp_And(float64(n) <= ratio, ratio < float64(n)+1), "floor(value/reference) asterisks")
		}
	} else {
		vp_Assert(marker == "", "no marker for a hidden row")
	}
	vp_Reach("end")
}

// VPH_concernMonotone: given the characterisation proved by VPH_concern
// (shown <=> saturated or not(ratio < threshold)), raising the threshold only
// removes rows and threshold 0 shows everything. ratio is any double the
// division can produce (non-negative or NaN-free is not even needed for
// monotonicity); thresholds are any non-NaN doubles.
func VPH_concernMonotone() {
	r := vp_F64("ratio")
	t1, t2 := vp_F64("t1"), vp_F64("t2")
	vp_Assume(t1 == t1)
	vp_Assume(t2 == t2)
	vp_Assume(t1 <= t2)
	shown1 := !(r < t1)
	shown2 := !(r < t2)
	vp_Assert(vp_Imp(shown2, shown1), "raising the threshold only removes rows")
	// threshold 0: a quotient of a non-negative value by a positive reference is never < 0
	v := vp_U64("v")
	var hs HistorySize
	hs.UniqueBlobSize = counts.Count64(v)
	hs.MaxParentCount = counts.Count32(uint32(v))
	items := map[string]*item{}
	hs.contents(nil).CollectItems(items)
	for _, sym := range []string{"uniqueBlobSize", "maxCommitParentCount"} {
		_, shown0 := items[sym].levelOfConcern(0)
		vp_Assert(shown0, "--verbose (threshold 0) shows every metric: "+sym)
	}
	vp_Reach("end")
}
