package symex

import (
	"go/types"

	"verif/engine/smt"
)

// Map is an insertion-ordered association list. Key comparison yields a
// boolean term; a comparison that is not decided by the path condition
// forks the path (B.3 of DESIGN.md).
type Map struct {
	t       *types.Map
	entries []*mapEntry
	index   map[string]int // fast path for concrete string / small keys
}

type mapEntry struct {
	k, v Value
}

func newMap(t *types.Map) *Map { return &Map{t: t, index: map[string]int{}} }

func (m *Map) len() int { return len(m.entries) }

// concreteKey returns a canonical string for fully concrete keys.
func concreteKey(v Value) (string, bool) {
	switch v := v.(type) {
	case Str:
		if v.isConcrete() {
			return "s:" + v.c, true
		}
		return "", false
	case *smt.Term:
		if v.IsConst() {
			return "t:" + v.String(), true
		}
		return "", false
	case Struct:
		s := "{"
		for _, e := range v {
			k, ok := concreteKey(e)
			if !ok {
				return "", false
			}
			s += k + ","
		}
		return s + "}", true
	case Array:
		b := make([]byte, 0, len(v)+2)
		b = append(b, '[')
		for _, e := range v {
			t, ok := e.(*smt.Term)
			if !ok || !t.IsConst() || t.Sort.W != 8 {
				// generic
				k, ok := concreteKey(e)
				if !ok {
					return "", false
				}
				b = append(b, k...)
				b = append(b, ',')
				continue
			}
			b = append(b, byte(t.C))
		}
		return string(b), true
	}
	return "", false
}

func (p *Path) mapFind(m *Map, key Value) int {
	kt := m.t.Key()
	ck, conc := concreteKey(key)
	if conc && !m.hasSymKeys() {
		if i, ok := m.index[ck]; ok {
			return i
		}
		if len(m.index) == len(m.entries) {
			return -1
		}
	}
	for i, e := range m.entries {
		if p.branch(p.equals(kt, e.k, key)) {
			return i
		}
	}
	return -1
}

func (m *Map) hasSymKeys() bool { return len(m.index) != len(m.entries) }

func (p *Path) mapGet(m *Map, key Value) (Value, bool) {
	i := p.mapFind(m, key)
	if i < 0 {
		return nil, false
	}
	return m.entries[i].v, true
}

func (p *Path) mapInsert(m *Map, key, v Value) {
	i := p.mapFind(m, key)
	if i >= 0 {
		m.entries[i].v = v
		return
	}
	m.entries = append(m.entries, &mapEntry{copyVal(key), v})
	if ck, ok := concreteKey(key); ok {
		m.index[ck] = len(m.entries) - 1
	}
}

func (p *Path) mapDelete(m *Map, key Value) {
	i := p.mapFind(m, key)
	if i < 0 {
		return
	}
	m.entries = append(m.entries[:i:i], m.entries[i+1:]...)
	m.index = map[string]int{}
	for j, e := range m.entries {
		if ck, ok := concreteKey(e.k); ok {
			m.index[ck] = j
		}
	}
}
