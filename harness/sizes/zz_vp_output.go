package sizes

import (
	"encoding/json"
	"strconv"
	"strings"

	"github.com/github/git-sizer/counts"
)

// H-concern / H-json2 / H-table (C11, C05 rendering of saturated values).

// vpItems returns the items of the real contents() in a fixed order together
// with the HistorySize field each must display (the JSON v1 name of that field).
type vpItemSpec struct {
	symbol string
	value  func(s *HistorySize) uint64
	is64   bool
}

var vpItemTable = []vpItemSpec{
	{"uniqueCommitCount", func(s *HistorySize) uint64 { return uint64(s.UniqueCommitCount) }, false},
	{"uniqueCommitSize", func(s *HistorySize) uint64 { return uint64(s.UniqueCommitSize) }, true},
	{"uniqueTreeCount", func(s *HistorySize) uint64 { return uint64(s.UniqueTreeCount) }, false},
	{"uniqueTreeSize", func(s *HistorySize) uint64 { return uint64(s.UniqueTreeSize) }, true},
	{"uniqueTreeEntries", func(s *HistorySize) uint64 { return uint64(s.UniqueTreeEntries) }, true},
	{"uniqueBlobCount", func(s *HistorySize) uint64 { return uint64(s.UniqueBlobCount) }, false},
	{"uniqueBlobSize", func(s *HistorySize) uint64 { return uint64(s.UniqueBlobSize) }, true},
	{"uniqueTagCount", func(s *HistorySize) uint64 { return uint64(s.UniqueTagCount) }, false},
	{"referenceCount", func(s *HistorySize) uint64 { return uint64(s.ReferenceCount) }, false},
	{"maxCommitSize", func(s *HistorySize) uint64 { return uint64(s.MaxCommitSize) }, false},
	{"maxCommitParentCount", func(s *HistorySize) uint64 { return uint64(s.MaxParentCount) }, false},
	{"maxTreeEntries", func(s *HistorySize) uint64 { return uint64(s.MaxTreeEntries) }, false},
	{"maxBlobSize", func(s *HistorySize) uint64 { return uint64(s.MaxBlobSize) }, false},
	{"maxHistoryDepth", func(s *HistorySize) uint64 { return uint64(s.MaxHistoryDepth) }, false},
	{"maxTagDepth", func(s *HistorySize) uint64 { return uint64(s.MaxTagDepth) }, false},
	{"maxCheckoutTreeCount", func(s *HistorySize) uint64 { return uint64(s.MaxExpandedTreeCount) }, false},
	{"maxCheckoutPathDepth", func(s *HistorySize) uint64 { return uint64(s.MaxPathDepth) }, false},
	{"maxCheckoutPathLength", func(s *HistorySize) uint64 { return uint64(s.MaxPathLength) }, false},
	{"maxCheckoutBlobCount", func(s *HistorySize) uint64 { return uint64(s.MaxExpandedBlobCount) }, false},
	{"maxCheckoutBlobSize", func(s *HistorySize) uint64 { return uint64(s.MaxExpandedBlobSize) }, true},
	{"maxCheckoutLinkCount", func(s *HistorySize) uint64 { return uint64(s.MaxExpandedLinkCount) }, false},
	{"maxCheckoutSubmoduleCount", func(s *HistorySize) uint64 { return uint64(s.MaxExpandedSubmoduleCount) }, false},
}

// order in which tiers take items: a diverse prefix first (32-bit metric with
// a tiny reference, the 1.001 reference, a 64-bit byte total, a byte maximum)
var vpItemOrder = []int{10, 14, 6, 12, 0, 19, 17, 4, 1, 2, 3, 5, 7, 8, 9, 11, 13, 15, 16, 18, 20, 21}

// VPH_json2: the JSON v2 rendering of one item carries the same measurement.
func VPH_json2() {
	var hs HistorySize
	vpFreeHistory(&hs)
	items := map[string]*item{}
	hs.contents(nil).CollectItems(items)
	spec := vpItemTable[vpItemOrder[vp_Choice("item", vp_Param("nitems"))]]
	it := items[spec.symbol]
	if it == nil {
		vp_Fail("item exists")
		return
	}
	type v2item = struct {
		Description       string  `json:"description"`
		Value             uint64  `json:"value"`
		Unit              string  `json:"unit"`
		Prefixes          string  `json:"prefixes"`
		ReferenceValue    float64 `json:"referenceValue"`
		LevelOfConcern    float64 `json:"levelOfConcern"`
		ObjectName        string  `json:"objectName,omitempty"`
		ObjectDescription string  `json:"objectDescription,omitempty"`
	}
	doc, err := it.MarshalJSON()
	vp_Assert(err == nil, "MarshalJSON succeeds for every value, saturated ones included")
	if err != nil {
		return
	}
	var st v2item
	if vp_Native() {
		// the real encoder ran: read the document back
		if json.Unmarshal(doc, &st) != nil {
			vp_Fail("JSON v2 item is a JSON object with the documented keys")
			return
		}
	} else {
		// the engine captured what was handed to encoding/json
		var ok bool
		st, ok = vp_LastJSON().(v2item)
		vp_Assert(ok, "JSON v2 item has the documented keys")
		if !ok {
			return
		}
	}
	want := spec.value(&hs)
	vp_Assert(st.Value == want, "JSON v2 value = the counter (capacity when saturated)")
	vp_Assert(st.ReferenceValue == it.scale, "referenceValue")
	vp_Assert(st.LevelOfConcern == float64(want)/it.scale, "levelOfConcern = value/referenceValue")
	vp_Assert(st.ObjectName == "" && st.ObjectDescription == "", "no object cited without a path")
	vp_Assert(st.Prefixes == "metric" || st.Prefixes == "binary", "prefix system named")
	vp_Reach("end")
}

// VPH_table: the table for a history with three free metrics (the others 0)
// and a free threshold: rows, section headers and the 'no problems' line.
func VPH_table() {
	var hs HistorySize
	// the numeric side of "qualifies" is VPH_concern's subject; here the values
	// are picked from a menu around their references and the threshold is free.
	par := []uint32{0, 5, 10, 15, 305, 350}[vp_Choice("parents", 6)]           // reference 10; 305 is between 30 x and 31 x the reference, 350 beyond
	ent := []uint32{0, 999, 1000, 1999, 30000, 45000}[vp_Choice("entries", 6)] // reference 1000; 30000 is exactly 30 x the reference
	lnk := []uint32{0, 25000, 49999, 1<<32 - 1}[vp_Choice("links", 4)]         // reference 25e3; the last one is saturated
	var rendered []uint64
	if !vp_Native() {
		// numerals are C12's subject; keep them out of the table text, but record what is rendered
		vp_Stub("(*github.com/github/git-sizer/counts.Humaner).Format", func(h *counts.Humaner, v counts.Humanable, unit string) (string, string) {
			n, _ := v.ToUint64()
			rendered = append(rendered, n)
			return "1", unit
		})
	}
	hs.MaxParentCount = counts.Count32(par)
	hs.MaxTreeEntries = counts.Count32(ent)
	hs.MaxExpandedLinkCount = counts.Count32(lnk)
	t := vp_F64("threshold")
	vp_Assume(t == t)
	vp_Assume(t > 0) // with threshold <= 0 every (zero) metric is shown; covered by VPH_concern
	out := hs.TableString(nil, Threshold(t), NameStyleNone)
	showPar := !(float64(par)/10 < t)
	showEnt := !(float64(ent)/1000 < t)
	showLnk := lnk == 1<<32-1 || !(float64(lnk)/25e3 < t) // a saturated value is always shown
	// all other metrics are 0 and 0/scale < t
	has := func(s string) bool { return strings.Contains(out, s) }
	vp_Assert(has("Maximum parents") == showPar, "row 'Maximum parents' shown iff it qualifies")
	vp_Assert(has("Maximum entries") == showEnt, "row 'Maximum entries' shown iff it qualifies")
	vp_Assert(has("Number of symlinks") == showLnk, "row 'Number of symlinks' shown iff it qualifies")
	// the concern column of a shown row: floor(value/reference) asterisks up to 30, exclamation marks beyond
	marker := func(name string) string {
		for _, l := range strings.Split(out, "\n") {
			if strings.Contains(l, name) {
				cells := strings.Split(l, "|")
				if len(cells) >= 4 {
					return strings.Trim(cells[3], " ")
				}
			}
		}
		return "?"
	}
	wantMarker := func(v uint32, ref float64) string {
		r := float64(v) / ref
		if r > 30 {
			return "!!!!!!!!!!!!!!!!!!!!!!!!!!!!!!"
		}
		return strings.Repeat("*", int(r))
	}
	if showPar {
		vp_Assert(marker("Maximum parents") == wantMarker(par, 10), "concern marker of 'Maximum parents'")
	}
	if showEnt {
		vp_Assert(marker("Maximum entries") == wantMarker(ent, 1000), "concern marker of 'Maximum entries'")
	}
	if showLnk && lnk == 1<<32-1 {
		vp_Assert(marker("Number of symlinks") == "!!!!!!!!!!!!!!!!!!!!!!!!!!!!!!", "a saturated value is at the highest level of concern")
	}
	any := showPar || showEnt || showLnk
	vp_Assert((out == "No problems above the current threshold were found\n") == !any, "'no problems' line iff no row qualifies")
	vp_Assert(has("| Name ") == any, "table header iff some row")
	vp_Assert(has("Biggest objects") == (showPar || showEnt), "section header iff a row below it is shown")
	vp_Assert(has("| * Commits") == showPar, "subsection 'Commits' iff its row is shown")
	vp_Assert(has("| * Trees") == showEnt, "subsection 'Trees' iff its row is shown")
	vp_Assert(has("Biggest checkouts") == showLnk, "section 'Biggest checkouts' iff its row is shown")
	vp_Assert(!has("Overall repository size") && !has("History structure"), "sections without rows are omitted")
	if any {
		vp_Assert(strings.Count(out, "| Name ") == 1, "one header")
	}
	if vp_Native() {
		// the real Humaner ran: the saturated metric (and only it) is rendered as the infinity sign
		vp_Assert(has("\u221e") == (lnk == 1<<32-1), "a saturated value is shown as the infinity sign, every other value as a numeral")
	} else {
		// each table value is the rendering of the exact measurement (the same cell JSON prints)
		var wantR []uint64
		if showPar {
			wantR = append(wantR, uint64(par))
		}
		if showEnt {
			wantR = append(wantR, uint64(ent))
		}
		if showLnk {
			wantR = append(wantR, uint64(lnk))
		}
		vp_Assert(len(rendered) == len(wantR), "one numeral per shown row")
		for i := 0; i < len(wantR) && i < len(rendered); i++ {
			vp_Assert(rendered[i] == wantR[i], "the table renders the exact measurement of its row")
		}
	}
	vp_Reach("end")
}

// VPH_itemPaths (C08, C11): every item cites the object recorded for *its own*
// metric (and items without a witness cite nothing).
func VPH_itemPaths() {
	var hs HistorySize
	mk := func() *Path { return &Path{} }
	hs.MaxCommitSizeCommit, hs.MaxParentCountCommit, hs.MaxTreeEntriesTree, hs.MaxBlobSizeBlob = mk(), mk(), mk(), mk()
	hs.MaxTagDepthTag, hs.MaxPathDepthTree, hs.MaxPathLengthTree = mk(), mk(), mk()
	hs.MaxExpandedTreeCountTree, hs.MaxExpandedBlobCountTree, hs.MaxExpandedBlobSizeTree = mk(), mk(), mk()
	hs.MaxExpandedLinkCountTree, hs.MaxExpandedSubmoduleCountTree = mk(), mk()
	want := map[string]*Path{
		"maxCommitSize": hs.MaxCommitSizeCommit, "maxCommitParentCount": hs.MaxParentCountCommit, "maxTreeEntries": hs.MaxTreeEntriesTree,
		"maxBlobSize": hs.MaxBlobSizeBlob, "maxTagDepth": hs.MaxTagDepthTag, "maxCheckoutPathDepth": hs.MaxPathDepthTree,
		"maxCheckoutPathLength": hs.MaxPathLengthTree, "maxCheckoutTreeCount": hs.MaxExpandedTreeCountTree,
		"maxCheckoutBlobCount": hs.MaxExpandedBlobCountTree, "maxCheckoutBlobSize": hs.MaxExpandedBlobSizeTree,
		"maxCheckoutLinkCount": hs.MaxExpandedLinkCountTree, "maxCheckoutSubmoduleCount": hs.MaxExpandedSubmoduleCountTree,
	}
	items := map[string]*item{}
	hs.contents(nil).CollectItems(items)
	for _, spec := range vpItemTable {
		it := items[spec.symbol]
		if it == nil {
			vp_Fail("item exists: " + spec.symbol)
			continue
		}
		vp_Assert(it.path == want[spec.symbol], "the item cites the witness of its own metric: "+spec.symbol)
	}
	vp_Reach("end")
}

// VPH_refgroupRows (C07): the References section of the report for a refgroup
// hierarchy of any depth up to the bound: one row per group that tallied a
// reference, in the given order, under its display name, indented by its
// nesting depth, showing its own tally; groups without a tally and the
// top-level pseudo group print nothing; no failure however deep.
func VPH_refgroupRows() {
	depth := 1 + vp_Choice("depth", vp_Param("maxdepth"))
	var hs HistorySize
	hs.ReferenceGroups = map[RefGroupSymbol]*counts.Count32{}
	groups := []RefGroup{{Symbol: "", Name: "Refs to walk"}}
	sym := ""
	var wantRows []string
	var wantVals []uint64
	for d := 1; d <= depth; d++ {
		if d > 1 {
			sym += "."
		}
		sym += "g" + string(rune('a'+d%26))
		name := "Group" + string(rune('A'+d%26))
		groups = append(groups, RefGroup{Symbol: RefGroupSymbol(sym), Name: name})
		if vp_Choice("tallied", 2) == 1 {
			n := counts.Count32(100 + d)
			hs.ReferenceGroups[RefGroupSymbol(sym)] = &n
			wantRows = append(wantRows, strings.Repeat("  ", 2+d-1)+"* "+name)
			wantVals = append(wantVals, uint64(100+d))
		}
	}
	groups = append(groups, RefGroup{Symbol: "ignored", Name: "Ignored"})
	ig := counts.Count32(7)
	hs.ReferenceGroups["ignored"] = &ig
	hs.ReferenceGroups[""] = &ig // the top-level tally is never a row
	wantRows = append(wantRows, strings.Repeat("  ", 2)+"* Ignored")
	wantVals = append(wantVals, 7)
	hs.ReferenceCount = 12345

	var rendered []uint64
	if !vp_Native() {
		vp_Stub("(*github.com/github/git-sizer/counts.Humaner).Format", func(h *counts.Humaner, v counts.Humanable, unit string) (string, string) {
			n, _ := v.ToUint64()
			rendered = append(rendered, n)
			return "1", unit
		})
	}
	var out string
	panicked := vp_Catch(func() { out = hs.TableString(groups, 0, NameStyleNone) })
	vp_Assert(!panicked, "the report is produced without failure, however deeply the refgroups are nested")
	if panicked {
		return
	}
	lines := strings.Split(out, "\n")
	// rows of the References section, in order
	idx := 0
	for _, l := range lines {
		if idx < len(wantRows) && strings.HasPrefix(l, "| "+wantRows[idx]+" ") {
			idx++
		}
	}
	vp_Assert(idx == len(wantRows), "one row per tallied group, in order, under its display name, indented by its depth")
	vp_Assert(!strings.Contains(out, "Refs to walk"), "the top-level pseudo group is not a row")
	vp_Assert(strings.Count(out, "* Group") == len(wantRows)-1, "groups without a tally print nothing")
	if vp_Native() {
		// the real Humaner ran: each row's value cell holds the group's own tally (all below 1000: printed exactly)
		k := 0
		for _, l := range lines {
			if k < len(wantRows) && strings.HasPrefix(l, "| "+wantRows[k]+" ") {
				vp_Assert(strings.Contains(l, " "+strconv.FormatUint(wantVals[k], 10)+" "), "each refgroup row shows its own tally")
				k++
			}
		}
	} else {
		// the numerals rendered for those rows are the groups' own tallies (after the 9 size rows and the reference count)
		found := 0
		for _, v := range rendered {
			if found < len(wantVals) && v == wantVals[found] {
				found++
			}
		}
		vp_Assert(found == len(wantVals), "each refgroup row shows its own tally")
	}
	vp_Reach("end")
}

// VP_ItemsSummary lets harnesses of other packages look into the item map that
// HistorySize.JSON hands to encoding/json: symbol -> displayed value.
func VP_ItemsSummary(v interface{}) (map[string]uint64, bool) {
	items, ok := v.(map[string]*item)
	if !ok {
		return nil, false
	}
	out := map[string]uint64{}
	for sym, it := range items {
		if it == nil || it.symbol != sym {
			return nil, false
		}
		n, _ := it.value.ToUint64()
		out[sym] = n
	}
	return out, true
}
