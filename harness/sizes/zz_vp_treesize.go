package sizes

import (
	"github.com/github/git-sizer/counts"
)

// H-treesize: one add* step of the checkout-expansion fold from an arbitrary
// accumulator and an arbitrary child (C04 arithmetic, C05 saturation).

func vpName() (string, uint64) {
	L := vp_U64("namelen")
	vp_Assume(L >= 1)
	vp_Assume(L < 1<<62)
	return vp_OpaqueStr("name", L), L
}

func VPH_addDescendent() {
	s := vpFreeTreeSize("s")
	c := vpFreeTreeSize("c")
	// invariants of a finalised child: it is a tree (counts itself), and it has
	// a non-zero depth exactly when it has a non-empty longest path.
	vp_Assume(c.ExpandedTreeCount >= 1)
	vp_Assume((c.MaxPathDepth > 0) == (c.MaxPathLength > 0))
	name, L := vpName()
	old := s

	s.addDescendent(name, c) // the real code

	// depth: max(S, C+1), saturating
	vp_Assert(uint64(s.MaxPathDepth) == vpMax(uint64(old.MaxPathDepth), vpMin(uint64(c.MaxPathDepth)+1, vpCap32)), "depth=max(S,min(C+1,cap))")
	// path length: name alone for an empty child, else name + '/' + child's longest
	cand := vp_IteU64(c.MaxPathLength > 0, L+1+uint64(c.MaxPathLength), L)
	vp_KnownRegion("KF-a", L >= vpCap32)
	vp_Assert(uint64(s.MaxPathLength) == vpMax(uint64(old.MaxPathLength), vpMin(cand, vpCap32)), "plen=max(S,min(len+1+C,cap))")
	vp_KnownRegionEnd("KF-a")
	vp_Assert(uint64(s.ExpandedTreeCount) == vpMin(uint64(old.ExpandedTreeCount)+uint64(c.ExpandedTreeCount), vpCap32), "trees add")
	vp_Assert(uint64(s.ExpandedBlobCount) == vpMin(uint64(old.ExpandedBlobCount)+uint64(c.ExpandedBlobCount), vpCap32), "blobs add")
	vp_Assert(uint64(s.ExpandedBlobSize) == vpSat64(uint64(old.ExpandedBlobSize), uint64(c.ExpandedBlobSize)), "bytes add")
	vp_Assert(uint64(s.ExpandedLinkCount) == vpMin(uint64(old.ExpandedLinkCount)+uint64(c.ExpandedLinkCount), vpCap32), "links add")
	vp_Assert(uint64(s.ExpandedSubmoduleCount) == vpMin(uint64(old.ExpandedSubmoduleCount)+uint64(c.ExpandedSubmoduleCount), vpCap32), "submodules add")
	vp_Reach("end")
}

func vpLeafCommon(s, old TreeSize, L uint64) {
	vp_Assert(uint64(s.MaxPathDepth) == vpMax(uint64(old.MaxPathDepth), 1), "leaf depth=max(S,1)")
	vp_Assert(uint64(s.MaxPathLength) == vpMax(uint64(old.MaxPathLength), vpMin(L, vpCap32)), "leaf plen=max(S,min(len,cap))")
	vp_Assert(s.ExpandedTreeCount == old.ExpandedTreeCount, "leaf: trees unchanged")
}

func VPH_addBlob() {
	s := vpFreeTreeSize("s")
	name, L := vpName()
	size := vp_U32("size")
	old := s
	s.addBlob(name, BlobSize{counts.Count32(size)})
	vpLeafCommon(s, old, L)
	vp_Assert(uint64(s.ExpandedBlobCount) == vpMin(uint64(old.ExpandedBlobCount)+1, vpCap32), "blobs+1")
	vp_Assert(uint64(s.ExpandedBlobSize) == vpSat64(uint64(old.ExpandedBlobSize), uint64(size)), "bytes+size")
	vp_Assert(s.ExpandedLinkCount == old.ExpandedLinkCount, "links unchanged")
	vp_Assert(s.ExpandedSubmoduleCount == old.ExpandedSubmoduleCount, "submodules unchanged")
	vp_Reach("end")
}

func VPH_addLink() {
	s := vpFreeTreeSize("s")
	name, L := vpName()
	old := s
	s.addLink(name)
	vpLeafCommon(s, old, L)
	vp_Assert(uint64(s.ExpandedLinkCount) == vpMin(uint64(old.ExpandedLinkCount)+1, vpCap32), "links+1")
	vp_Assert(s.ExpandedBlobCount == old.ExpandedBlobCount, "blobs unchanged")
	vp_Assert(s.ExpandedBlobSize == old.ExpandedBlobSize, "bytes unchanged")
	vp_Assert(s.ExpandedSubmoduleCount == old.ExpandedSubmoduleCount, "submodules unchanged")
	vp_Reach("end")
}

func VPH_addSubmodule() {
	s := vpFreeTreeSize("s")
	name, L := vpName()
	old := s
	s.addSubmodule(name)
	vpLeafCommon(s, old, L)
	vp_Assert(uint64(s.ExpandedSubmoduleCount) == vpMin(uint64(old.ExpandedSubmoduleCount)+1, vpCap32), "submodules+1")
	vp_Assert(s.ExpandedBlobCount == old.ExpandedBlobCount, "blobs unchanged")
	vp_Assert(s.ExpandedBlobSize == old.ExpandedBlobSize, "bytes unchanged")
	vp_Assert(s.ExpandedLinkCount == old.ExpandedLinkCount, "links unchanged")
	vp_Reach("end")
}
